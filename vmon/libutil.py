"""Thin helpers around the library's public entry points (the code under observation)."""
import io
import warnings

import lxml.etree as ET


def xtce_element(xml: str, prefix="xtce", nsmap=None):
    """Parse one XTCE element the way the library's own loader would see it (NamespaceAwareElement class).
    Mutates the same class-level namespace state from_xtce mutates."""
    from space_packet_parser import common
    from space_packet_parser.xtce import DEFAULT_XTCE_NSMAP
    el = common.NamespaceAwareElement
    el.set_nsmap(dict(DEFAULT_XTCE_NSMAP) if nsmap is None else nsmap)
    el.set_ns_prefix(prefix)
    lookup = ET.ElementDefaultClassLookup(element=el)
    parser = ET.XMLParser()
    parser.set_element_class_lookup(lookup)
    return ET.fromstring(xml, parser=parser)


XTCE_NS = "https://www.omg.org/spec/XTCE/20180204"


def wrap_ns(inner: str) -> str:
    """inner uses the xtce: prefix; declare it on the element itself"""
    i = inner.index(">") if "/>" not in inner.split(">")[0] + ">" else inner.index("/>")
    return inner[:i] + f' xmlns:xtce="{XTCE_NS}"' + inner[i:]


def load_definition(xml_bytes: bytes, prefix="xtce", root="CCSDSPacket"):
    from space_packet_parser.xtce.definitions import XtcePacketDefinition
    return XtcePacketDefinition.from_xtce(io.BytesIO(xml_bytes), xtce_ns_prefix=prefix, root_container_name=root)


def definition_to_bytes(defn) -> bytes:
    return ET.tostring(defn.to_xml_tree(), pretty_print=True, xml_declaration=True, encoding="utf-8")


class Step:
    """Outcome of one monitored call: value or exception, plus warnings raised during it."""
    __slots__ = ("value", "exc", "warnings")

    def __init__(self, value=None, exc=None, warns=()):
        self.value = value
        self.exc = exc
        self.warnings = list(warns)


def monitored(fn, *a, **kw) -> Step:
    with warnings.catch_warnings(record=True) as w:
        warnings.simplefilter("always")
        try:
            v = fn(*a, **kw)
            return Step(v, None, w)
        except Exception as e:  # noqa: BLE001 - the monitor records whatever escapes
            return Step(None, e, w)


IGNORED_WARNING_CATEGORIES = (DeprecationWarning, PendingDeprecationWarning, ResourceWarning, ImportWarning, BytesWarning)


def lib_warnings(step_or_list):
    """Warnings attributable to the library's own logic: any category except Python's housekeeping ones
    (the category a library warning uses is not part of any property)."""
    ws = step_or_list.warnings if isinstance(step_or_list, Step) else step_or_list
    return [w for w in ws if not issubclass(w.category, IGNORED_WARNING_CATEGORIES)]
