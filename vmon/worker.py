"""python -m vmon.worker PROP TIER SEED SHARD NSHARDS OUT"""
import faulthandler
import sys

from vmon import core


def main(argv):
    prop, tier, seed, shard, nshards, out = argv
    # a true hang inside one step is diagnosed (stack dump) by the wall-clock watchdog of run.py killing us;
    # dump_traceback_later gives the stack *before* that happens
    budget = 1500 if tier == "quick" else 6 * 3600
    faulthandler.dump_traceback_later(budget, exit=False)
    sys.setrecursionlimit(20000)
    if hasattr(sys, "set_int_max_str_digits"):
        sys.set_int_max_str_digits(0)    # witnesses may hold integers of hundreds of thousands of bits
    return core.run_worker(prop, tier, int(seed), int(shard), int(nshards), out)


if __name__ == "__main__":
    sys.exit(main(sys.argv[1:]))
