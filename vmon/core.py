"""Shared runtime-monitoring plumbing: per-shard context (counters, distinct signatures, samples,
violations), reach recorder (sys.monitoring), result (de)serialisation.

Everything a monitor observes goes through a Ctx so that the evidence file is written from what the
monitors actually saw, never from constants.
"""
import json
import os
import random
import sys
import time
import traceback
from collections import Counter

VERIF_DIR = os.path.dirname(os.path.dirname(os.path.abspath(__file__)))
REPO = os.path.realpath(os.environ.get("VERIF_REPO", "/repo"))

MAX_WITNESS_PER_KEY = 3
MAX_SAMPLES = 6


class HarnessError(Exception):
    """The verification machinery itself is broken (self-check failed). => inconclusive, never a violation."""


def jsonable(x, depth=0):
    """Best-effort conversion of witnesses to JSON (bytes -> hex strings, floats incl. nan/inf -> repr)."""
    if depth > 8:
        return repr(x)[:200]
    if isinstance(x, (bytes, bytearray)):
        h = bytes(x).hex()
        return "hex:" + (h if len(h) <= 400 else h[:400] + f"...({len(x)}B)")
    if isinstance(x, bool) or x is None:
        return x
    if isinstance(x, int):
        if abs(x) < 2 ** 53:
            return int(x)
        return "int:" + str(int(x)) if int(x).bit_length() < 2000 else f"int:0x{int(x) >> (int(x).bit_length() - 256):x}...({int(x).bit_length()} bits)"
    if isinstance(x, float):
        x = float(x)
        if x != x or x in (float("inf"), float("-inf")):
            return "float:" + repr(x)
        return x
    if isinstance(x, str):
        return x if len(x) <= 2000 else x[:2000] + "..."
    if isinstance(x, dict):
        return {str(k): jsonable(v, depth + 1) for k, v in list(x.items())[:200]}
    if isinstance(x, (list, tuple, set, frozenset)):
        xs = list(x)
        out = [jsonable(v, depth + 1) for v in xs[:200]]
        if len(xs) > 200:
            out.append(f"...({len(xs)} items)")
        return out
    return repr(x)[:400]


class Ctx:
    """Per-shard observation context."""

    def __init__(self, prop, tier, seed, shard, nshards):
        self.prop = prop
        self.tier = tier
        self.seed = seed
        self.shard = shard
        self.nshards = nshards
        self.counters = Counter()
        self.distinct = set()
        self.samples = []
        self.violations = {}   # key -> {"count": n, "witnesses": [...], "msg": str}
        self.exhaustive = {}   # name -> size of a completely enumerated sub-space
        self.notes = []
        self.reach = set()
        self.t0 = time.time()

    # ---- randomness -------------------------------------------------------------------------
    def rng(self, *salt):
        """A deterministic RNG for (seed, shard, salt)."""
        return random.Random(f"{self.prop}/{self.seed}/{self.shard}/{'/'.join(map(str, salt))}")

    def mine(self, i):
        """True if work item number i belongs to this shard."""
        return i % self.nshards == self.shard

    @property
    def quick(self):
        return self.tier == "quick"

    def size(self, quick, thorough):
        return quick if self.tier == "quick" else thorough

    # ---- observations -----------------------------------------------------------------------
    def count(self, name, n=1):
        self.counters[name] += n

    def sig(self, *parts):
        """Record a distinct non-trivial feature signature."""
        self.distinct.add("|".join(str(p) for p in parts))

    def sample(self, case):
        if len(self.samples) < MAX_SAMPLES:
            self.samples.append(jsonable(case))

    def violation(self, key, msg, witness=None):
        """Record a violation under a *mechanism key* (features of the failing case and of the failed
        assertion; never random values)."""
        v = self.violations.setdefault(key, {"count": 0, "witnesses": [], "msg": msg})
        v["count"] += 1
        if len(v["witnesses"]) < MAX_WITNESS_PER_KEY:
            v["witnesses"].append({"msg": msg, "witness": jsonable(witness),
                                   "shard": self.shard, "nshards": self.nshards})

    def exhaustive_space(self, name, size):
        self.exhaustive[name] = self.exhaustive.get(name, 0) + size

    def note(self, s):
        if len(self.notes) < 20:
            self.notes.append(s)

    # ---- serialisation ----------------------------------------------------------------------
    def dump(self, path, error=None):
        out = {
            "prop": self.prop, "tier": self.tier, "seed": self.seed, "shard": self.shard,
            "nshards": self.nshards,
            "counters": dict(self.counters),
            "distinct": sorted(self.distinct),
            "samples": self.samples,
            "violations": self.violations,
            "exhaustive": self.exhaustive,
            "notes": self.notes,
            "reach": sorted(self.reach),
            "wall_s": time.time() - self.t0,
            "error": error,
        }
        tmp = path + ".tmp"
        with open(tmp, "w") as f:
            json.dump(out, f)
        os.replace(tmp, path)


# ---------------------------------------------------------------------------------------------
# reach recorder: which functions of the repository were executed at least once during the run.
# PY_START callback that disables itself per code object => near-zero overhead.
# ---------------------------------------------------------------------------------------------
def install_reach(ctx):
    mon = getattr(sys, "monitoring", None)
    if mon is None:
        return
    tool = mon.COVERAGE_ID
    try:
        mon.use_tool_id(tool, "vmon-reach")
    except ValueError:
        return
    prefix = os.path.join(REPO, "space_packet_parser") + os.sep
    plen = len(prefix)

    def on_start(code, offset):
        fn = code.co_filename
        if fn.startswith(prefix):
            ctx.reach.add(f"{fn[plen:]}:{code.co_qualname}")
        return mon.DISABLE

    mon.register_callback(tool, mon.events.PY_START, on_start)
    mon.set_events(tool, mon.events.PY_START)


def run_worker(prop, tier, seed, shard, nshards, out_path):
    import importlib
    ctx = Ctx(prop, tier, seed, shard, nshards)
    install_reach(ctx)
    error = None
    try:
        mod = importlib.import_module(f"vmon.props.{prop.lower()}")
        mod.run(ctx)
    except HarnessError as e:
        error = "HarnessError: " + str(e) + "\n" + traceback.format_exc()[-3000:]
    except BaseException as e:  # noqa: BLE001 - anything escaping the harness is the harness's fault
        error = f"{type(e).__name__}: {e}\n" + traceback.format_exc()[-4000:]
    ctx.dump(out_path, error=error)
    return 0 if error is None else 3
