"""Recording byte sources for the framer: every call (requested, returned) is logged at the client boundary."""
import io
import socket
import threading


class WouldBlock(TimeoutError):
    """Raised by ScriptedSocket when asked for data the schedule has not delivered (a real socket would block)."""


class ScriptedSocket(socket.socket):
    """A socket whose recv() returns scripted chunks (never more than asked for). When the script is exhausted it
    returns b"" if `closed_by_peer` else raises WouldBlock (a real quiet socket would block forever / time out)."""

    def __init__(self, chunks, closed_by_peer=False):
        super().__init__(socket.AF_INET, socket.SOCK_STREAM)
        self._chunks = [bytes(c) for c in chunks if len(c)]
        self._pending = b""
        self._closed_by_peer = closed_by_peer
        self.log = []            # (requested, len returned) per recv
        self.delivered = 0
        self.blocked = 0         # recv calls made when nothing was left (and peer not closed)
        self.eof_calls = 0       # recv calls answered with b""

    def recv(self, bufsize, flags=0):
        if not self._pending and self._chunks:
            self._pending = self._chunks.pop(0)
        if not self._pending:
            if self._closed_by_peer:
                self.eof_calls += 1
                self.log.append((bufsize, 0))
                return b""
            self.blocked += 1
            self.log.append((bufsize, -1))
            raise WouldBlock("scripted socket: no more data scheduled (a real socket would block)")
        out, self._pending = self._pending[:bufsize], self._pending[bufsize:]
        self.delivered += len(out)
        self.log.append((bufsize, len(out)))
        return out


class RecordingFile(io.BufferedIOBase):
    """A binary file object over bytes. mode 'full': read(n) returns min(n, remaining) (n<0: all).
    mode 'short': read(n) with n>0 returns between 1 and n bytes (legal short reads), chosen by rng."""

    def __init__(self, data, mode="full", rng=None):
        super().__init__()
        self._data = bytes(data)
        self._pos = 0
        self._mode = mode
        self._rng = rng
        self.log = []
        self.eof_calls = 0

    def readable(self):
        return True

    def seekable(self):
        return True

    def seek(self, offset, whence=0):
        if whence == 0:
            self._pos = offset
        elif whence == 1:
            self._pos += offset
        else:
            self._pos = len(self._data) + offset
        self._pos = max(0, self._pos)
        return self._pos

    def tell(self):
        return self._pos

    def read(self, size=-1):
        rem = len(self._data) - self._pos
        if size is None or size < 0:
            n = rem
        else:
            n = min(size, rem)
            if self._mode == "short" and n > 1:
                n = self._rng.randrange(1, n + 1)
        out = self._data[self._pos:self._pos + n]
        self._pos += n
        self.log.append((size, len(out)))
        if not out:
            self.eof_calls += 1
        return out

    def read1(self, size=-1):
        return self.read(size)


def socketpair_feed(data, chunks, close=True):
    """A real socketpair: a feeder thread sends `data` cut into `chunks` sizes, then (optionally) closes.
    Returns (receiver, thread, sender)."""
    a, b = socket.socketpair()
    b.settimeout(20)

    def feed():
        pos = 0
        try:
            for c in chunks:
                a.sendall(data[pos:pos + c])
                pos += c
            if pos < len(data):
                a.sendall(data[pos:])
        finally:
            if close:
                a.close()

    t = threading.Thread(target=feed, daemon=True)
    t.start()
    return b, t, a


def compositions(n):
    """All ways to cut n bytes into ordered positive chunks (2^(n-1))."""
    for mask in range(1 << (n - 1)):
        out, run = [], 1
        for i in range(n - 1):
            if mask >> i & 1:
                out.append(run)
                run = 1
            else:
                run += 1
        out.append(run)
        yield out


def cut(data, sizes):
    out, pos = [], 0
    for s in sizes:
        out.append(data[pos:pos + s])
        pos += s
    if pos < len(data):
        out.append(data[pos:])
    return out
