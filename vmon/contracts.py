"""Shape-K monitors: icontract postconditions re-bound onto the real functions from the harness (no repo edit).

Every condition *records* (violation / evaluation counters on the Ctx) and returns True, so the monitored code
runs exactly as it would unmonitored (a raising contract could be swallowed by the library's own except clauses,
or change control flow). Evaluations are counted; 0 evaluations of a deciding contract => inconclusive.

The oracles come from vmon.bits and never call the library.
"""
import icontract

from vmon import bits


class MonitorViolation(Exception):
    pass


_armed = {}


def short(x):
    """repr for messages; huge integers abbreviated"""
    if isinstance(x, int) and not isinstance(x, bool) and x.bit_length() > 512:
        return f"<int of {x.bit_length()} bits>"
    if isinstance(x, (bytes, bytearray)) and len(x) > 64:
        return f"<{len(x)} bytes {bytes(x[:16])!r}...>"
    return repr(x)


def window_bits(buf, p, n):
    """the n bits starting at bit p of buf, computed from the covering bytes only (keeps the oracle O(n), not O(len))"""
    lo, hi = p // 8, (p + n + 7) // 8
    return bits.bitstr(buf[lo:hi])[p - 8 * lo:p - 8 * lo + n]


def _wide(n):
    return "n0" if n == 0 else "n<=8" if n <= 8 else "n<=64" if n <= 64 else "n>64"


def arm_reads(ctx, tag="c03"):
    """C03: RawPacketData.read_as_int / read_as_bytes and packets._extract_bits."""
    from space_packet_parser import packets
    if "reads" in _armed:
        _armed["reads"]["ctx"] = ctx
        return
    state = {"ctx": ctx}
    _armed["reads"] = state
    RPD = packets.RawPacketData

    def snap_pos(self):
        return self.pos

    def snap_buf(self):
        return bytes(self)

    def post_int(self, nbits, result, OLD):
        c = state["ctx"]
        p = OLD.pos
        if not isinstance(nbits, int) or isinstance(nbits, bool) or nbits < 0 or p < 0 or p + nbits > 8 * len(OLD.buf):
            c.count("read_as_int.out_of_domain")
            return True
        c.count("read_as_int.evaluations")
        exp = bits.u(window_bits(OLD.buf, p, nbits))
        aligned = "al" if (p % 8 == 0 and nbits % 8 == 0) else "un"
        key = None
        if type(result) is not int or result != exp:
            key = f"read_as_int/value/{aligned}"
        elif self.pos != p + nbits:
            key = f"read_as_int/cursor/{aligned}"
        elif bytes(self) != OLD.buf:
            key = "read_as_int/buffer-changed"
        if key:
            c.violation(key, f"read_as_int(pos={p}, nbits={nbits}) -> {short(result)} pos'={self.pos}; expected {short(exp)} pos'={p + nbits}",
                        {"buf": OLD.buf[:64], "len": len(OLD.buf), "pos": p, "nbits": nbits, "result": result,
                         "expected": exp, "pos_after": self.pos})
        c.sig("int", p % 8, nbits % 8, _wide(nbits))
        return True

    def post_bytes(self, nbits, result, OLD):
        c = state["ctx"]
        p = OLD.pos
        if not isinstance(nbits, int) or isinstance(nbits, bool) or nbits < 0 or p < 0 or p + nbits > 8 * len(OLD.buf):
            c.count("read_as_bytes.out_of_domain")
            return True
        c.count("read_as_bytes.evaluations")
        exp = bits.bits_to_bytes_left_padded(window_bits(OLD.buf, p, nbits))
        aligned = "al" if (p % 8 == 0 and nbits % 8 == 0) else "un"
        key = None
        if not isinstance(result, bytes) or bytes(result) != exp:
            key = f"read_as_bytes/value/{aligned}"
        elif self.pos != p + nbits:
            key = f"read_as_bytes/cursor/{aligned}"
        elif bytes(self) != OLD.buf:
            key = "read_as_bytes/buffer-changed"
        if key:
            c.violation(key, f"read_as_bytes(pos={p}, nbits={nbits}) -> {short(result)} pos'={self.pos}; expected {short(exp)} pos'={p + nbits}",
                        {"buf": OLD.buf[:64], "len": len(OLD.buf), "pos": p, "nbits": nbits, "result": result,
                         "expected": exp, "pos_after": self.pos})
        c.sig("bytes", p % 8, nbits % 8, _wide(nbits))
        return True

    def post_extract(data, start_bit, nbits, result):
        c = state["ctx"]
        if (not isinstance(nbits, int) or not isinstance(start_bit, int) or nbits < 0 or start_bit < 0
                or start_bit + nbits > 8 * len(data)):
            c.count("_extract_bits.out_of_domain")
            return True
        c.count("_extract_bits.evaluations")
        exp = bits.u(window_bits(bytes(data), start_bit, nbits))
        if result != exp:
            c.violation("_extract_bits/value", f"_extract_bits(len={len(data)}, {start_bit}, {nbits}) -> {short(result)}; expected {short(exp)}",
                        {"buf": bytes(data)[:64], "start_bit": start_bit, "nbits": nbits, "result": result, "expected": exp})
        return True

    RPD.read_as_int = icontract.snapshot(snap_pos, name="pos")(icontract.snapshot(snap_buf, name="buf")(
        icontract.ensure(post_int, error=MonitorViolation)(RPD.read_as_int)))
    RPD.read_as_bytes = icontract.snapshot(snap_pos, name="pos")(icontract.snapshot(snap_buf, name="buf")(
        icontract.ensure(post_bytes, error=MonitorViolation)(RPD.read_as_bytes)))
    if callable(getattr(packets, "_extract_bits", None)):     # private helper: monitored when present, never required
        packets._extract_bits = icontract.ensure(post_extract, error=MonitorViolation)(packets._extract_bits)


def arm_numeric(ctx):
    """C04: IntegerDataEncoding/FloatDataEncoding._get_raw_value postcondition (value of the field's bits)."""
    from space_packet_parser.xtce import encodings
    if "numeric" in _armed:
        _armed["numeric"]["ctx"] = ctx
        return
    state = {"ctx": ctx}
    _armed["numeric"] = state

    def snap(self, packet):
        return (packet.raw_data.pos, bytes(packet.raw_data))

    def post_int(self, packet, result, OLD):
        c = state["ctx"]
        p, buf = OLD.before
        n = self.size_in_bits
        little = self.byte_order == "leastSignificantByteFirst"
        if p + n > 8 * len(buf) or n <= 0 or (little and n % 8):
            c.count("int_raw.out_of_domain")
            return True
        if self.encoding not in ("unsigned", "signed", "twosComplement", "twosCompliment"):
            c.count("int_raw.other_encoding")
            return True
        c.count("int_raw.evaluations")
        exp = bits.int_field(window_bits(buf, p, n), self.encoding, little)
        key = None
        if type(result) is not int or result != exp:
            key = f"int/value/{self.encoding}/{'LE' if little else 'BE'}"
        elif packet.raw_data.pos != p + n:
            key = "int/cursor"
        if key:
            c.violation(key, f"{n}-bit {self.encoding} {'LE' if little else 'BE'} at bit {p}: got {result!r} pos'={packet.raw_data.pos}, expected {exp} pos'={p + n}",
                        {"buf": buf[:64], "pos": p, "n": n, "encoding": self.encoding, "little": little,
                         "result": result, "expected": exp})
        return True

    def post_float(self, packet, result, OLD):
        c = state["ctx"]
        p, buf = OLD.before
        n = self.size_in_bits
        little = self.byte_order == "leastSignificantByteFirst"
        if p + n > 8 * len(buf):
            c.count("float_raw.out_of_domain")
            return True
        c.count("float_raw.evaluations")
        fb = window_bits(buf, p, n)
        exp = bits.mil1750a(fb, little) if self.encoding == "MILSTD_1750A" else bits.float_field(fb, little)
        key = None
        if type(result) is not float or not bits.same_float(result, exp):
            key = f"float/value/{self.encoding}/{n}/{'LE' if little else 'BE'}"
        elif packet.raw_data.pos != p + n:
            key = "float/cursor"
        if key:
            c.violation(key, f"{n}-bit {self.encoding} {'LE' if little else 'BE'} at bit {p}: got {result!r}, expected {exp!r}",
                        {"buf": buf[:64], "pos": p, "n": n, "encoding": self.encoding, "little": little,
                         "result": result, "expected": exp})
        return True

    I, F = encodings.IntegerDataEncoding, encodings.FloatDataEncoding
    # _get_raw_value is a private method: monitored when present (extra observability), never required for a verdict
    if callable(getattr(I, "_get_raw_value", None)):
        I._get_raw_value = icontract.snapshot(snap, name="before")(
            icontract.ensure(post_int, error=MonitorViolation)(I._get_raw_value))
    if callable(getattr(F, "_get_raw_value", None)):
        F._get_raw_value = icontract.snapshot(snap, name="before")(
            icontract.ensure(post_float, error=MonitorViolation)(F._get_raw_value))
