"""Small hand-written XTCE documents used by checks that need *a* definition but are not about definitions."""
from vmon.libutil import XTCE_NS

HEADER_FIELDS = [("VERSION", 3), ("TYPE", 1), ("SEC_HDR_FLG", 1), ("PKT_APID", 11), ("SEQ_FLGS", 2),
                 ("SRC_SEQ_CTR", 14), ("PKT_LEN", 16)]


def header_only_doc(extra_types="", extra_params="", extra_entries="", extra_containers="", root_abstract=False):
    types = "".join(
        f'<xtce:IntegerParameterType name="{n}_Type" signed="false"><xtce:UnitSet/>'
        f'<xtce:IntegerDataEncoding sizeInBits="{w}" encoding="unsigned"/></xtce:IntegerParameterType>'
        for n, w in HEADER_FIELDS)
    params = "".join(f'<xtce:Parameter name="{n}" parameterTypeRef="{n}_Type"/>' for n, _ in HEADER_FIELDS)
    entries = "".join(f'<xtce:ParameterRefEntry parameterRef="{n}"/>' for n, _ in HEADER_FIELDS)
    return (f'<?xml version="1.0" encoding="UTF-8"?>\n<xtce:SpaceSystem xmlns:xtce="{XTCE_NS}" name="T">'
            f'<xtce:Header date="2024-01-01T00:00:00" version="1.0" validationStatus="Working"/>'
            f'<xtce:TelemetryMetaData><xtce:ParameterTypeSet>{types}{extra_types}</xtce:ParameterTypeSet>'
            f'<xtce:ParameterSet>{params}{extra_params}</xtce:ParameterSet>'
            f'<xtce:ContainerSet><xtce:SequenceContainer name="CCSDSPacket" abstract="{str(root_abstract).lower()}">'
            f'<xtce:EntryList>{entries}{extra_entries}</xtce:EntryList></xtce:SequenceContainer>{extra_containers}'
            f'</xtce:ContainerSet></xtce:TelemetryMetaData></xtce:SpaceSystem>').encode()


def header_plus_blob_doc():
    """header, then a binary field sized by PKT_LEN: 8*(PKT_LEN+1) bits => consumes exactly the whole packet."""
    t = ('<xtce:BinaryParameterType name="BLOB_Type"><xtce:UnitSet/><xtce:BinaryDataEncoding><xtce:SizeInBits>'
         '<xtce:DynamicValue><xtce:ParameterInstanceRef parameterRef="PKT_LEN" useCalibratedValue="false"/>'
         '<xtce:LinearAdjustment slope="8" intercept="8"/></xtce:DynamicValue></xtce:SizeInBits>'
         '</xtce:BinaryDataEncoding></xtce:BinaryParameterType>')
    return header_only_doc(extra_types=t, extra_params='<xtce:Parameter name="BLOB" parameterTypeRef="BLOB_Type"/>',
                           extra_entries='<xtce:ParameterRefEntry parameterRef="BLOB"/>')
