"""Comparing what the library produced for one packet (or one stream) with the reference model's Outcome.

Used by C01 C05 C07 C09 C11 C14 C16. Every mismatch is reported under a mechanism key built from static features of
the first disagreeing field and of the failed assertion (never from values).
"""
import warnings

from vmon import ir, ref, synth
from vmon.libutil import Step, lib_warnings, monitored

JUDGED_EXPECTED_FAILURES = {"unlisted-enumeration-value", "outside-spline-range", "terminator-absent", "undecodable",
                            "string-length-not-multiple-of-8", "lookup-no-match", "zero-to-negative-power"}


def enc_features(t: ir.PType):
    e = t.enc
    if isinstance(e, ir.IntEnc):
        cal = "cal" if (e.default_cal is not None or e.context_cals) else "nocal"
        ctxc = "ctx" if e.context_cals else ""
        return f"int{'LE' if e.little else ''}/{e.encoding}/{cal}{ctxc}"
    if isinstance(e, ir.FloatEnc):
        cal = "cal" if (e.default_cal is not None or e.context_cals) else "nocal"
        return f"float{e.bits}{'LE' if e.little else ''}/{e.encoding}/{cal}"
    L = e.length
    lk = "fixed" if isinstance(L, int) else "lookup" if isinstance(L, ir.Lookup) else \
        ("dyn" + ("cal" if L.calibrated else "raw") + ("adj" if (L.slope is not None or L.intercept is not None) else ""))
    if isinstance(e, ir.BinEnc):
        return f"bin/{lk}"
    delim = "lead" if e.leading_size is not None else "term" if e.termination is not None else "whole"
    cs = "multi" if ref.CODE_UNIT.get(e.charset, 1) > 1 else ("utf8" if e.charset == "UTF-8" else "single")
    return f"str/{cs}/{delim}/{lk}"


class DocInfo:
    """static per-document facts used for keys and signatures"""

    def __init__(self, doc: ir.Doc):
        self.doc = doc
        tm, pm = doc.type_map(), doc.param_map()
        self.feat = {}
        self.kind = {}
        self.dynamic = {}
        for p in doc.params:
            t = tm[p.type]
            self.feat[p.name] = f"{t.kind}/{enc_features(t)}"
            self.kind[p.name] = t.kind
            self.dynamic[p.name] = not isinstance(getattr(t.enc, "length", 0), int)
        cm = doc.container_map()
        self.depth = {}
        for c in doc.containers:
            d, x = 0, c
            while x.base:
                d += 1
                x = cm[x.base]
            self.depth[c.name] = d
        self.nested = {c.name for c in doc.containers for k, n in c.entries if k == "c"}


def new_packet(raw: bytes):
    from space_packet_parser import packets
    return packets.CCSDSPacket(raw_data=raw)


def parse_single(defn, raw: bytes, root=None):
    """monitored definition.parse_ccsds_packet on a fresh packet; returns (Step, packet object)"""
    pkt = new_packet(raw)
    kw = {} if root is None else {"root_container_name": root}
    step = monitored(defn.parse_ccsds_packet, pkt, **kw)
    return step, pkt


def reparse_same_object(defn, raw: bytes, root=None):
    """the same RawPacketData object wrapped in two CCSDSPacket objects and parsed twice (e.g. an unrecognized packet handed
    on to a fallback definition): returns None if both parses agree, else a description"""
    from space_packet_parser import packets as P
    obj = P.RawPacketData(raw)
    res = []
    kw = {} if root is None else {"root_container_name": root}
    for _ in range(2):
        pkt = P.CCSDSPacket(raw_data=obj)
        s = monitored(defn.parse_ccsds_packet, pkt, **kw)
        res.append((type(s.exc).__name__ if s.exc else None, list(pkt.keys()), [repr(v) for v in pkt.values()], pkt.raw_data.pos))
    return None if res[0] == res[1] else f"first parse: {res[0][0]}, {len(res[0][1])} items, cursor {res[0][3]}; second parse of the same raw object: {res[1][0]}, {len(res[1][1])} items, cursor {res[1][3]}"


def compare_items(libpkt, out: ref.Outcome, info: DocInfo, ctx=None, sig_prefix=()):
    """-> None or (mechanism, message). libpkt: a dict of name -> value (CCSDSPacket or partial_data)"""
    items = out.items
    if len({n for n, _ in items}) != len(items):
        # a parameter that occurs twice on one path cannot be represented twice in a dict: the packet keeps the position
        # of the first occurrence and the value of the last one (documents like this are only met in mission replays;
        # the generators never produce them)
        merged = {}
        for n, v in items:
            merged[n] = v
        items = list(merged.items())
        if ctx is not None:
            ctx.count("model.duplicate-parameters-collapsed")
    names = [n for n, _ in items]
    got = list(libpkt.keys())
    if got != names:
        if got[:len(names)] == names:
            extra = got[len(names)]
            return (f"items/extra/{info.feat.get(extra, '?')}", f"library decoded extra item {extra!r} after the model's last item")
        if names[:len(got)] == got:
            miss = names[len(got)]
            return (f"items/missing/{info.feat.get(miss, '?')}", f"library stopped before item {miss!r}")
        i = next(k for k, (a, b) in enumerate(zip(got, names)) if a != b)
        return (f"items/order/{info.feat.get(names[i], '?')}", f"item {i}: library has {got[i]!r}, model has {names[i]!r}")
    prev_dyn = False
    bitpos = 0
    for i, (name, val) in enumerate(items):
        why = synth.compare_value(libpkt[name], val)
        if ctx is not None and i >= 7:
            ctx.sig(*sig_prefix, info.feat[name], "afterdyn" if prev_dyn else "static")
        if why:
            kindw = why.split(" ")[0]
            return (f"field/{kindw}/{info.feat[name]}/{'afterdyn' if prev_dyn else 'static'}",
                    f"parameter {name} (item {i}): {why}")
        prev_dyn = prev_dyn or info.dynamic.get(name, False)
    return None


def stopped_at(pkt, out, info):
    """features of the parameter the library was decoding when it raised: the packet dict is filled in place, so the
    first model item that is missing from it is where the library stopped"""
    names = [n for n, _ in out.items]
    for n in names:
        if n not in pkt:
            return info.feat.get(n, "?")
    return "after-last-item"


def stopped_on_dontcare(pkt, out):
    """the library raised while decoding a field whose value the model does not pin down (e.g. float overflow)"""
    for n, v in out.items:
        if n not in pkt:
            return bool(v.dontcare)
    return False


def has_dontcare(out):
    return any(v.dontcare for _, v in out.items)


def judge_single(ctx, info: DocInfo, raw: bytes, step: Step, pkt, out: ref.Outcome, strict_views=True):
    """Compare one parse_ccsds_packet execution with the model outcome. Returns list of (mechanism, message)."""
    from space_packet_parser import exceptions as X
    probs = []
    sigp = (f"d{len(out.path) - 1}", "nested" if any(c in info.nested for c in out.path) else "flat")
    if out.status == "dontcare":
        ctx.count("outcome.dontcare")
        return probs
    ctx.count(f"outcome.{out.status}")
    if out.status == "ok":
        if step.exc is not None:
            if stopped_on_dontcare(pkt, out):
                ctx.count("outcome.exception-on-dontcare-field")
                return probs
            probs.append((f"exception/{type(step.exc).__name__}/{stopped_at(pkt, out, info)}",
                          f"library raised {type(step.exc).__name__}: {step.exc} ; model decodes {len(out.items)} items"))
            return probs
        m = compare_items(step.value, out, info, ctx, sigp)
        if m:
            probs.append(m)
            return probs
        if step.value.raw_data.pos != out.pos:
            probs.append(("cursor/after-parse", f"cursor {step.value.raw_data.pos}, model {out.pos}"))
        if strict_views:
            items = list(step.value.items())
            if list(step.value.header.items()) != items[:7] or list(step.value.user_data.items()) != items[7:]:
                probs.append(("views/header-user_data-split", "header/user_data views are not the first seven / remaining items"))
        return probs
    if out.status == "unrecognized":
        if not isinstance(step.exc, X.UnrecognizedPacketTypeError):
            if step.exc is None:
                probs.append((f"unrecognized/returned-packet/{out.unrec_kind}",
                              f"model: {out.unrec_kind} at {out.path[-1]}; library returned a packet with {len(step.value)} items"))
            elif stopped_on_dontcare(pkt, out):
                ctx.count("outcome.exception-on-dontcare-field")
            else:
                probs.append((f"exception/{type(step.exc).__name__}/{stopped_at(pkt, out, info)}",
                              f"model: unrecognized ({out.unrec_kind}) after {len(out.items)} items; library raised {step.exc!r}"))
            return probs
        pd = getattr(step.exc, "partial_data", None)
        if pd is None:
            probs.append(("unrecognized/no-partial-data", "UnrecognizedPacketTypeError without partial_data"))
            return probs
        m = compare_items(pd, out, info, ctx, sigp)
        if m:
            probs.append(("unrecognized/partial-data/" + m[0], m[1]))
        return probs
    # ---- error expected ----------------------------------------------------------------------------------------
    if step.exc is not None:
        return probs
    if out.consumption in ("over", "negative"):
        # C14: must not come out clean. A normal return is tolerated only if the cursor betrays the problem.
        if step.value.raw_data.pos == 8 * len(raw):
            probs.append((f"clean-after-{out.detail}/{info.feat.get(out.error_at, '?')}",
                          f"field {out.error_at}: {out.detail}; library returned normally with the cursor exactly at the end"))
        return probs
    if out.detail in JUDGED_EXPECTED_FAILURES:
        probs.append((f"expected-failure-returned-value/{out.detail}/{info.feat.get(out.error_at, '?')}",
                      f"model: {out.detail} at {out.error_at}; library returned {dict(list(step.value.items())[-2:])!r}"))
    return probs


def is_length_warning(w):
    """the generator's 'bits parsed did not match' warning, matched by origin, not by text: a UserWarning raised from a
    file of the space_packet_parser package other than comparisons.py (whose only parse-time warning is the
    self-referencing-criteria note). The workloads that use this predicate never enable segment combining, so no other
    parse-time warning of the package can occur."""
    fn = str(getattr(w, "filename", "")).replace("\\", "/")
    from vmon.libutil import IGNORED_WARNING_CATEGORIES
    return not issubclass(w.category, IGNORED_WARNING_CATEGORIES) and "/space_packet_parser/" in fn and not fn.endswith("comparisons.py")


def stream_expectation(outcomes, parse_bad_pkts=True, yield_unrecognized=False):
    """what packet_generator must yield for a list of per-packet model outcomes (all ok/unrecognized):
    list of ('packet', index) / ('error', index)"""
    exp = []
    for i, o in enumerate(outcomes):
        if o.status == "unrecognized":
            if yield_unrecognized:
                exp.append(("error", i))
        elif o.status == "ok":
            if o.consumption != "exact" and not parse_bad_pkts:
                continue
            exp.append(("packet", i))
        else:
            raise ValueError("stream contains a packet whose outcome is not ok/unrecognized")
    return exp
