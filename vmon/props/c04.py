"""C04 — integer and float fields decode correctly at every size, offset and byte order.

Monitors: (K) icontract postcondition on Integer/FloatDataEncoding._get_raw_value (oracle: vmon.bits);
(direct) the harness drives ParameterType.parse_value on prepared packets and compares value, value class
(IntParameter / FloatParameter), raw_value and cursor delta with the model. Encodings are built by both
construction routes: the constructor and from_xml of a rendered element.
"""
from vmon import bits, contracts
from vmon.libutil import XTCE_NS, monitored, xtce_element

LEVEL = "exploration"
SHARDS = {"quick": 16, "thorough": 16}
MUST = ["int.evaluations", "ieee16.evaluations", "ieee32.evaluations", "ieee64.evaluations", "mil1750a.evaluations",
        "route.from_xml", "route.ctor", "identical_encoding_elements.packets", "debug_logging.decodes", "route.cross_typed_decodes", "offsets.deeper_than_first_byte", "repeated_references.packets", "route.copied_types", "route.copied_decodes", "legacy.spellings", "context-not-applying.cases", "same-raw-object.redecodes"]
RULE = ("ParameterType.parse_value is executed on packets whose field bits are chosen by the harness; every "
        "execution is compared with an explicit model (two's complement / byte reversal / IEEE-754 "
        "sign-exponent-mantissa arithmetic / 1750A rationals) for value, Python class, raw_value and cursor "
        "delta, and independently by a postcondition on _get_raw_value. Enumerated completely: all 65536 "
        "binary16 patterns x {BE,LE}; integer widths 1..72 and 128 x encodings x byte orders x offsets 0..7 x "
        "boundary patterns; binary32/64: every exponent x {0,1,max} mantissa x sign; 1750A: all 256 exponents x "
        "64 mantissas; plus seeded random patterns; integers also in the XTCE 1.1 spelling twosCompliment; two decodes in five "
        "go through a deep / shallow copy of the parameter type and its encoding. distinct_nontrivial = distinct (kind, width, encoding, "
        "byte order, offset, pattern class) signatures; pattern class 'zero' is the trivial one and is excluded.")
ASSUMPTIONS = ["little-endian integers are exercised only at whole-byte widths (C04's own wording)",
               "float equality is bit-level (NaN==NaN, -0.0 != +0.0); NaN payloads are not compared",
               "'signed' is treated as two's complement (documented behaviour of the library)"]

BO = {False: "mostSignificantByteFirst", True: "leastSignificantByteFirst"}


def make_packet(fieldbits: str, offset: int, rng):
    from space_packet_parser import packets
    pre = "".join(rng.choice("01") for _ in range(offset))
    total = offset + len(fieldbits)
    post = "".join(rng.choice("01") for _ in range((-total) % 8 + 8 * rng.randrange(0, 2)))
    allbits = pre + fieldbits + post
    raw = bytes(int(allbits[i:i + 8], 2) for i in range(0, len(allbits), 8))
    pkt = packets.CCSDSPacket(raw_data=raw)
    pkt.raw_data.pos = offset
    return pkt


class Types:
    """cache of parameter types built by both routes"""

    def __init__(self, ctx):
        self.ctx = ctx
        self.cache = {}

    def get(self, kind, n, enc, little, route):
        key = (kind, n, enc, little, route)
        if key in self.cache:
            return self.cache[key]
        from space_packet_parser.xtce import encodings, parameter_types
        if route.endswith("+xtype"):
            # the encoding under the OTHER numeric parameter type (an integer-encoded FloatParameterType is ordinary XTCE): what is
            # decoded - value, class, raw value - is the encoding's business
            if kind == "int":
                t = parameter_types.FloatParameterType("T", encodings.IntegerDataEncoding(n, enc, byte_order=BO[little]))
            else:
                t = parameter_types.IntegerParameterType("T", encodings.FloatDataEncoding(n, encoding=enc, byte_order=BO[little]))
            self.ctx.count("route.cross_typed")
            self.cache[key] = t
            return t
        if route.endswith("+deepcopy") or route.endswith("+copy"):
            # a copy of an encoding is an encoding (definitions are copied, e.g. one per worker): it must decode identically
            import copy
            base, how = route.rsplit("+", 1)
            t0 = self.get(kind, n, enc, little, base)
            if how == "deepcopy":
                t = copy.deepcopy(t0)
            else:
                t = copy.copy(t0)
                t.encoding = copy.copy(t0.encoding)
            self.ctx.count("route.copied_types")
            self.cache[key] = t
            return t
        if route == "ctor":
            if kind == "int":
                e = encodings.IntegerDataEncoding(n, enc, byte_order=BO[little])
                t = parameter_types.IntegerParameterType("T", e)
            else:
                e = encodings.FloatDataEncoding(n, encoding=enc, byte_order=BO[little])
                t = parameter_types.FloatParameterType("T", e)
        else:
            tag = "Integer" if kind == "int" else "Float"
            bo = f' byteOrder="{BO[little]}"' if (little or n % 3 == 0) else ""  # default byte order sometimes implicit
            eng = (' signed="false"' if n % 2 == 0 else ' signed="true"' if n % 3 == 0 else "") if kind == "int" else ""
            eng += ' sizeInBits="32"' if n % 5 == 0 else ""       # engineering-type attributes: no influence on how the bits are read
            xml = (f'<xtce:{tag}ParameterType xmlns:xtce="{XTCE_NS}" name="T"{eng}><xtce:UnitSet/>'
                   f'<xtce:{tag}DataEncoding sizeInBits="{n}" encoding="{enc}"{bo}/></xtce:{tag}ParameterType>')
            el = xtce_element(xml)
            cls = parameter_types.IntegerParameterType if kind == "int" else parameter_types.FloatParameterType
            t = cls.from_xml(el)
        self.ctx.count(f"route.{route}")
        self.cache[key] = t
        return t


def check_one(ctx, types, kind, n, enc, little, offset, fieldbits, pclass, rng, route):
    from space_packet_parser import common
    variant = ctx.counters["evaluations"] % 5
    if variant in (1, 3) and isinstance(types, Types):
        route = route + ("+deepcopy" if variant == 1 else "+copy")
        ctx.count("route.copied_decodes")
    elif variant == 2 and isinstance(types, Types) and ctx.counters["evaluations"] % 3 == 0:
        route = "ctor+xtype"
        ctx.count("route.cross_typed_decodes")
    t = types.get(kind, n, enc, little, route)
    pkt = make_packet(fieldbits, offset, rng)
    step = monitored(t.parse_value, pkt)
    ctx.count("evaluations")
    if kind == "int":
        exp = bits.int_field(fieldbits, enc, little)
        counter = "int.evaluations"
        want_cls = common.IntParameter
    else:
        exp = bits.mil1750a(fieldbits, little) if enc == "MILSTD_1750A" else bits.float_field(fieldbits, little)
        counter = "mil1750a.evaluations" if enc == "MILSTD_1750A" else f"ieee{n}.evaluations"
        want_cls = common.FloatParameter
    ctx.count(counter)
    if pclass != "zero":
        ctx.sig(kind, n, enc, "LE" if little else "BE", offset, pclass)
    wit = {"kind": kind, "n": n, "encoding": enc, "little": little, "offset": offset, "field_bits": fieldbits[:160],
           "route": route, "expected": exp}
    tag = f"{kind}/{enc}/{'LE' if little else 'BE'}"
    if step.exc is not None:
        ctx.violation(f"parse_value/exception/{tag}/{type(step.exc).__name__}",
                      f"parse_value raised {type(step.exc).__name__}: {step.exc}", wit)
        return
    v = step.value
    wit["got"] = v
    ok_val = (type(v) is want_cls) and (v == exp if kind == "int" else bits.same_float(v, exp))
    if type(v) is not want_cls:
        ctx.violation(f"parse_value/class/{tag}", f"value class {type(v).__name__}, expected {want_cls.__name__}", wit)
    elif not ok_val:
        ctx.violation(f"parse_value/value/{tag}/w{n if kind == 'float' else ('>64' if n > 64 else '<=64')}",
                      f"{n}-bit {enc} at offset {offset}: got {v!r}, expected {exp!r}", wit)
    else:
        rv = getattr(v, "raw_value", None)
        same_raw = (rv == exp and type(rv) is int) if kind == "int" else (
            isinstance(rv, float) and bits.same_float(rv, exp))
        if not same_raw:
            ctx.violation(f"parse_value/raw_value/{tag}", f"raw_value {rv!r} != encoded value {exp!r}", wit)
    if pkt.raw_data.pos != offset + n:
        ctx.violation(f"parse_value/cursor/{tag}", f"cursor {pkt.raw_data.pos}, expected {offset + n}", wit)


def int_patterns(n, rng, nrand):
    pats = {"zero": 0, "one": 1, "max": (1 << n) - 1, "signbit": 1 << (n - 1), "maxpos": (1 << (n - 1)) - 1,
            "alt": int(("10" * n)[:n], 2), "alt2": int(("01" * n)[:n], 2), "minus2": ((1 << n) - 2) if n > 1 else 0}
    out = [(k, bits.to_bits(v, n)) for k, v in pats.items()]
    for i in range(nrand):
        out.append(("rand", bits.to_bits(rng.getrandbits(n), n)))
    return out


def extras(ctx, types, rng):
    """(a) tolerated legacy spellings 'IEEE-754' / 'MIL-1750A' decode like the canonical ones; (b) an integer encoding with
    context calibrators none of which applies (and no default) stays an exact integer; (c) decoding twice from the SAME
    RawPacketData object (each time through a new CCSDSPacket) gives the same value and the cursor starts at 0 again."""
    import warnings
    from space_packet_parser import common, packets
    from space_packet_parser.xtce import calibrators, comparisons, encodings, parameter_types
    # (a) legacy spellings
    for legacy, canon, n in (("IEEE-754", "IEEE754", 32), ("IEEE-754", "IEEE754", 64), ("MIL-1750A", "MILSTD_1750A", 32)):
        for little in (False, True):
            for route in ("ctor", "from_xml"):
                with warnings.catch_warnings():
                    warnings.simplefilter("ignore")
                    if route == "ctor":
                        t = parameter_types.FloatParameterType("T", encodings.FloatDataEncoding(n, encoding=legacy, byte_order=BO[little]))
                    else:
                        xml = (f'<xtce:FloatParameterType xmlns:xtce="{XTCE_NS}" name="T"><xtce:UnitSet/><xtce:FloatDataEncoding '
                               f'sizeInBits="{n}" encoding="{legacy}" byteOrder="{BO[little]}"/></xtce:FloatParameterType>')
                        t = parameter_types.FloatParameterType.from_xml(xtce_element(xml))
                types.cache[("float", n, canon + "/legacy", little, route)] = t
                for _ in range(40):
                    pat = rng.choice([0x40000000, 0x7FFFFF7F, 0x3FC00000, rng.getrandbits(n)]) & ((1 << n) - 1)
                    ctx.count("legacy.spellings")
                    check_one_with(ctx, t, "float", n, canon, little, rng.randrange(8), bits.to_bits(pat, n), "legacy", rng, route)
    # (b) context calibrators that do not apply, no default: the value is the exact integer
    never = calibrators.ContextCalibrator([comparisons.Comparison("1", "FLAG", "==", use_calibrated_value=False)],
                                          calibrators.PolynomialCalibrator([calibrators.PolynomialCoefficient(2.0, 1)]))
    for n in (8, 16, 33, 54, 64, 70):
        for enc in ("unsigned", "twosComplement"):
            e = encodings.IntegerDataEncoding(n, enc, context_calibrators=[never])
            t = parameter_types.IntegerParameterType("T", e)
            for pat in ((1 << n) - 1, (1 << (n - 1)) + 1, (1 << 53) + 1 if n > 54 else 5, rng.getrandbits(n)):
                pat &= (1 << n) - 1
                fb = bits.to_bits(pat, n)
                pkt = make_packet(fb, 0, rng)
                pkt["FLAG"] = common.IntParameter(0)
                step = monitored(t.parse_value, pkt)
                exp = bits.int_field(fb, enc, False)
                ctx.count("evaluations")
                ctx.count("context-not-applying.cases")
                ctx.sig("int", n, enc, "ctx-not-applying")
                if step.exc is not None or type(step.value) is not common.IntParameter or int(step.value) != exp:
                    ctx.violation(f"context-not-applying/{'exception' if step.exc else 'class' if type(step.value) is not common.IntParameter else 'value'}",
                                  f"{n}-bit {enc} with a non-applying context calibrator and no default: got {step.value!r} ({type(step.value).__name__}) / {step.exc!r}, expected IntParameter {exp}",
                                  {"n": n, "encoding": enc, "field_bits": fb})
    # (c) the same RawPacketData object decoded twice
    for n, enc in ((16, "unsigned"), (32, "twosComplement"), (5, "unsigned")):
        t = types.get("int", n, enc, False, "ctor")
        for _ in range(20):
            raw = packets.create_ccsds_packet(bytes(rng.getrandbits(8) for _ in range(8)), apid=rng.randrange(2048))
            results = []
            for attempt in range(3):
                pkt = packets.CCSDSPacket(raw_data=raw)          # same raw object every time
                step = monitored(t.parse_value, pkt)
                results.append((step.value, pkt.raw_data.pos, repr(step.exc)))
            exp = bits.int_field(bits.bitstr(bytes(raw))[:n], enc, False)
            ctx.count("evaluations")
            ctx.count("same-raw-object.redecodes")
            ctx.sig("int", n, enc, "redecode-same-raw-object")
            if any(r[2] != "None" or r[0] != exp or r[1] != n for r in results):
                ctx.violation("redecode/same-raw-object", f"decoding a {n}-bit field three times from the same RawPacketData object gave {results}, expected value {exp} and cursor {n} each time",
                              {"n": n, "results": results})


def identical_encoding_elements(ctx, rng):
    """several parameter types of one document carry textually identical encoding elements, one of them a time type whose <Encoding>
    adds scale/offset: each type decodes by ITS OWN definition (the plain ones stay exact integers / unscaled floats)"""
    from vmon import harness, ir, ref, render
    from vmon.libutil import load_definition
    from vmon.props.c05 import header_types
    from space_packet_parser import packets as P
    for case, (enc, scale, offset) in enumerate(((ir.IntEnc(16, "unsigned"), 0.5, None), (ir.IntEnc(64, "unsigned"), 0.001, 10.0), (ir.FloatEnc(32, "IEEE754", False), 0.5, None),
                                                 (ir.IntEnc(12, "twosComplement"), 2.0, -1.0), (ir.FloatEnc(64, "IEEE754", True), None, 3.0))):
        if not ctx.mine(case):
            continue
        for order in (("PLAIN", "TIME", "PLAIN2"), ("TIME", "PLAIN", "PLAIN2"), ("PLAIN", "PLAIN2", "TIME")):
            ts, ps = header_types("PKT_APID")
            kind_plain = "integer" if isinstance(enc, ir.IntEnc) else "float"
            tdefs = {"PLAIN": ir.PType("PLAIN_T", kind_plain, enc), "PLAIN2": ir.PType("PLAIN2_T", "float" if kind_plain == "integer" else kind_plain, enc),
                     "TIME": ir.PType("TIME_T", "abstime", enc, "s", scale=scale, offset=offset)}
            for n_ in order:                      # the order of the type definitions in the document varies
                ts.append(tdefs[n_])
                ps.append(ir.Param(n_, tdefs[n_].name))
            root = ir.Container("CCSDSPacket", tuple(("p", p.name) for p in ps[:7]) + (("p", "PLAIN"), ("p", "TIME"), ("p", "PLAIN2")))
            doc = ir.Doc(tuple(ts), tuple(ps), (root,))
            info = harness.DocInfo(doc)
            defn = load_definition(render.render_doc(doc))
            for _ in range(4):
                body = bytes(rng.getrandbits(8) for _ in range((3 * enc.bits + 7) // 8))
                if isinstance(enc, ir.FloatEnc):
                    import struct
                    body = struct.pack(">f" if enc.bits == 32 else "<d", rng.choice([1.5, -2.25, 1e10])) * 3
                raw = bytes(P.create_ccsds_packet(body, apid=3))
                out = ref.walk(doc, raw)
                step, pkt = harness.parse_single(defn, raw)
                ctx.count("evaluations")
                ctx.count("identical_encoding_elements.packets")
                ctx.sig("identical-encoding-elements", type(enc).__name__, enc.bits, order[0])
                for mech, msg in harness.judge_single(ctx, info, raw, step, pkt, out):
                    ctx.violation("identical-encoding-elements/" + mech, f"types in document order {order}: " + msg, {"order": order, "raw": raw})
                    break


def debug_logging_pass(ctx, types, rng):
    """the integer grid once more with DEBUG logging switched on for the library: values and cursor do not depend on the log level"""
    import logging
    lg = logging.getLogger("space_packet_parser")
    old_level, old_prop = lg.level, lg.propagate
    lg.setLevel(logging.DEBUG)
    lg.propagate = False
    lg.addHandler(logging.NullHandler())
    try:
        k = 0
        for n in (1, 3, 7, 8, 9, 12, 16, 17, 31, 33, 64, 65):
            for enc in ("unsigned", "twosComplement"):
                k += 1
                if not ctx.mine(k):
                    continue
                for offset in (0, 3, 8, 13):
                    for pclass, fb in int_patterns(n, rng, 2):
                        check_one(ctx, types, "int", n, enc, False, offset, fb, pclass, rng, "ctor" if offset % 2 else "from_xml")
                        ctx.count("debug_logging.decodes")
    finally:
        lg.setLevel(old_level)
        lg.propagate = old_prop


def repeated_references(ctx, rng):
    """one parameter referenced several times in a layout (spare / pad fields are): every reference is decoded at its own
    position and advances the cursor by the field width; the integer and float fields after it are read where they lie"""
    from vmon import gen, harness, ir, ref, render
    from vmon.libutil import load_definition
    from vmon.props.c05 import header_types
    for case in range(ctx.size(24, 400)):
        if not ctx.mine(case):
            continue
        r = ctx.rng("repeated", case)
        ts, ps = header_types("PKT_APID")
        w_sp = r.choice([1, 3, 5, 8, 12])
        kinds = [("SPARE", ir.PType("SPARE_T", "integer", ir.IntEnc(w_sp, r.choice(["unsigned", "twosComplement"])))),
                 ("A", ir.PType("A_T", "integer", ir.IntEnc(r.choice([7, 13, 16, 33]), "twosComplement"))),
                 ("F", ir.PType("F_T", "float", ir.FloatEnc(r.choice([32, 64]), "IEEE754", False))),
                 ("B", ir.PType("B_T", "integer", ir.IntEnc(r.choice([4, 9, 24]), "unsigned")))]
        for n_, t_ in kinds:
            ts.append(t_)
            ps.append(ir.Param(n_, t_.name))
        layout = r.choice([["SPARE", "A", "SPARE", "F", "B"], ["A", "SPARE", "SPARE", "F", "SPARE", "B"], ["SPARE", "F", "A", "SPARE", "B", "SPARE"],
                           ["A", "F", "A", "B"], ["F", "SPARE", "F", "B"]])
        root = ir.Container("CCSDSPacket", tuple(("p", p.name) for p in ps[:7]) + tuple(("p", n_) for n_ in layout))
        doc = ir.Doc(tuple(ts), tuple(ps), (root,))
        info = harness.DocInfo(doc)
        defn = load_definition(render.render_doc(doc)) if case % 2 else __import__("vmon.build", fromlist=["definition"]).definition(doc)
        tm = doc.type_map()
        nbits = sum(tm[doc.param_map()[n_].type].enc.bits for n_ in layout)
        for _ in range(4):
            body = bytes(r.getrandbits(8) for _ in range((nbits + 7) // 8))
            from space_packet_parser import packets as P
            raw = bytes(P.create_ccsds_packet(body, apid=r.randrange(2048)))
            out = ref.walk(doc, raw)
            step, pkt = harness.parse_single(defn, raw)
            ctx.count("evaluations")
            ctx.count("repeated_references.packets")
            ctx.sig("repeated-reference", "".join(x[0] for x in layout))
            for mech, msg in harness.judge_single(ctx, info, raw, step, pkt, out):
                ctx.violation("repeated-reference/" + mech, f"layout {layout}: " + msg, {"layout": layout, "raw": raw})
                break
            if step.exc is None and pkt.raw_data.pos != 48 + nbits:
                ctx.violation("repeated-reference/cursor", f"layout {layout}: cursor at {pkt.raw_data.pos} after parsing, the fields end at bit {48 + nbits}",
                              {"layout": layout, "raw": raw})


def check_one_with(ctx, t, kind, n, enc, little, offset, fieldbits, pclass, rng, route):
    """like check_one but with a prepared parameter type"""
    class _T:
        cache = {}

        def __init__(self, t):
            self.t = t

        def get(self, *a):
            return self.t
    check_one(ctx, _T(t), kind, n, enc, little, offset, fieldbits, pclass, rng, route)


def run(ctx):
    bits.selftest()
    contracts.arm_numeric(ctx)
    contracts.arm_reads(ctx)
    rng = ctx.rng("c04")
    types = Types(ctx)
    item = 0

    # ---- integers ---------------------------------------------------------------------------------
    widths = list(range(1, 73)) + [128]
    nrand = ctx.size(8, 200)
    for n in widths:
        for enc in ("unsigned", "signed", "twosComplement", "twosCompliment"):
            for little in (False, True):
                if little and n % 8:
                    continue
                item += 1
                if not ctx.mine(item):
                    continue
                # bit offsets 0..7 relative to a byte boundary, at the start of the buffer and deeper inside it (incl. the positions
                # where a CCSDS primary header would keep its own fields: the buffer here is arbitrary data, not a packet)
                for offset in list(range(8)) + [16, 19, 24, 32, 32 + (n % 8), 40, 45, 48, 48 + 1 + (n % 7)]:
                    route = "ctor" if (offset + n) % 2 else "from_xml"
                    if offset >= 8:
                        ctx.count("offsets.deeper_than_first_byte")
                    for pclass, fb in int_patterns(n, rng, nrand):
                        check_one(ctx, types, "int", n, enc, little, offset, fb, pclass, rng, route)
    ctx.exhaustive_space("int widths 1..72,128 x enc x byteorder x offsets 0..7 x 8 boundary patterns", 1)

    # ---- binary16: all patterns -------------------------------------------------------------------
    offsets16 = [0] if ctx.quick else list(range(8))
    for little in (False, True):
        for offset in offsets16:
            for pat in range(65536):
                if not ctx.mine(pat >> 8):
                    continue
                fb = bits.to_bits(pat, 16)
                e, m = (pat >> 10) & 31, pat & 1023
                pclass = ("zero" if (pat & 0x7FFF) == 0 and not little else
                          "nan" if e == 31 and m else "inf" if e == 31 else "sub" if e == 0 else "norm")
                check_one(ctx, types, "float", 16, "IEEE754", little, offset, fb, pclass, rng,
                          "ctor" if pat & 1 else "from_xml")
    ctx.exhaustive_space("binary16 patterns x {BE,LE} x offsets", 65536 * 2 * len(offsets16) // ctx.nshards)

    # ---- binary32 / binary64: every exponent x mantissa {0,1,max} x sign + random -------------------
    for n, (eb, mb) in ((32, (8, 23)), (64, (11, 52))):
        for little in (False, True):
            for e in range(1 << eb):
                item += 1
                if not ctx.mine(item):
                    continue
                for m in (0, 1, (1 << mb) - 1, 1 << (mb - 1)):
                    for s in (0, 1):
                        pat = (s << (n - 1)) | (e << mb) | m
                        pclass = ("zero" if e == 0 and m == 0 and s == 0 else "nan" if e == (1 << eb) - 1 and m
                                  else "inf" if e == (1 << eb) - 1 else "sub" if e == 0 else "norm")
                        offset = (e + m + s) % 8
                        check_one(ctx, types, "float", n, "IEEE754" if e % 2 else "IEEE754_1985", little, offset,
                                  bits.to_bits(pat, n), pclass, rng, "ctor" if e & 2 else "from_xml")
        for i in range(ctx.size(20_000, 3_000_000) // ctx.nshards):
            pat = rng.getrandbits(n)
            check_one(ctx, types, "float", n, "IEEE754", bool(i & 1), i % 8, bits.to_bits(pat, n), "rand", rng,
                      "ctor" if i & 2 else "from_xml")

    # ---- MIL-STD-1750A ----------------------------------------------------------------------------
    mants = [0, 1, 0x400000, 0x7FFFFF, 0x800000, 0x800001, 0xFFFFFF, 0xC00000]
    mants += [rng.getrandbits(24) for _ in range(56)]
    for little in (False, True):
        for e in range(256):
            item += 1
            if not ctx.mine(item):
                continue
            for mi, m in enumerate(mants):
                pat = (m << 8) | e
                pclass = "zero" if m == 0 else ("neg" if m & 0x800000 else "pos")
                check_one(ctx, types, "float", 32, "MILSTD_1750A", little, (e + mi) % 8, bits.to_bits(pat, 32),
                          pclass, rng, "ctor" if mi & 1 else "from_xml")
    ctx.exhaustive_space("1750A exponents(256) x 64 mantissas x {BE,LE}", 1)
    extras(ctx, types, rng)
    repeated_references(ctx, rng)
    identical_encoding_elements(ctx, rng)
    debug_logging_pass(ctx, types, rng)
    ctx.sample({"kind": "int", "n": 13, "encoding": "twosComplement", "offset": 3, "field_bits": "1000000000001",
                "model_value": bits.int_field("1000000000001", "twosComplement", False)})
    ctx.sample({"kind": "float", "n": 16, "encoding": "IEEE754", "little": True, "field_bits": bits.to_bits(0x01FC, 16),
                "model_value": bits.float_field(bits.to_bits(0x01FC, 16), True)})
