"""C16 — loading is independent of lexical spelling and of earlier loads.

Monitor shapes S+F. Fingerprint of a loaded definition = canonical form (my reader) of the XML the library writes for it
+ decode results of steered packets; it never depends on the library's attribute names.
 (a) spelling: the same IR rendered with namespace conventions {prefix xtce / custom / a / ns0, default namespace, none}
     and with comments / processing instructions / whitespace placed before, between and after the children of every
     element-only parent (one parent path at a time, so each list reader is probed individually) must load to the same
     fingerprint;
 (b) history: the document loaded after a history of 0-5 other loads (other documents in other conventions, malformed
     XML, wrong xtce_ns_prefix, semantically broken documents) must have the same fingerprint as when it is loaded first
     in a fresh process (child processes provide the fresh baselines). The namespace class state after every load is
     recorded as evidence (distinct states seen).
"""
import hashlib
import json
import os
import subprocess
import sys

from vmon import gen, ir, reader, render
from vmon.libutil import definition_to_bytes, load_definition, monitored
from vmon.props.c11 import solo_result

LEVEL = "exploration"
SHARDS = {"quick": 16, "thorough": 16}
MUST = ["spelling.styles", "trivia.comment", "trivia.pi", "trivia.whitespace", "trivia.paths_probed", "special_names.loads", "load.forms_rotated", "load.form.str-path", "load.form.Path", "load.form.open-file", "load.form.load_xml-or-stream", "layout.one-line", "layout.crlf", "layout.blank-lines", "layout.tabs", "layout.no-indent", "layout.entities", "history.runs", "history.same_path_same_stat", "spelling.namespace_bound_twice", "history.directed_pairs", "history.failed_prior_loads",
        "history.style_changes", "baseline.fresh_process", "path.ContextCalibratorList", "path.BaseContainer", "path.EntryList", "path.ComparisonList"]
RULE = ("case = (document IR, rendering = namespace convention x trivia placement, history of prior loads); fingerprint "
        "(canonical written XML + decode of steered packets) must equal the baseline. Renderings: 15 namespace conventions; inter-element whitespace layouts "
        "(none at all = whole document on one line, CRLF, blank lines, tabs, no indentation); an unrelated default namespace "
        "declared next to the XTCE prefix; the document handed over as stream / str path / Path / open file / load_xml; names "
        "containing characters XTCE permits (parentheses, punctuation) under five conventions; tolerated float spellings; "
        "for every distinct element-only parent path of the document, comments / processing instructions / whitespace "
        "before, between and after its children. Histories: 0-5 prior loads drawn from other documents in other "
        "conventions, malformed XML, wrong xtce_ns_prefix, semantically broken documents; baselines from fresh child "
        "processes. distinct_nontrivial = distinct (namespace convention, trivia kind, parent path) and (history shape) "
        "signatures; the plain xtce-prefixed rendering with empty history is trivial and excluded.")
ASSUMPTIONS = ["comments/PIs are placed only between element children of element-only content (not inside text-bearing elements)",
               "the caller passes the xtce_ns_prefix that matches the document's convention (None for default namespace / none)"]

# prefixes "of any name": including ones that are a leading substring of (or equal to) XTCE element names
STYLES = [("prefix", "xtce"), ("prefix", "custom"), ("prefix", "a"), ("prefix", "ns0"), ("default",), ("none",),
          ("prefix", "U"), ("prefix", "L"), ("prefix", "Seq"), ("prefix", "P"), ("prefix", "Header"), ("prefix", "T"), ("prefix", "C"),
          ("prefix", "Parameter"), ("prefix", "x-1.2_y")]
TRIVIA = {"comment": "<!-- c: <xtce:Fake/> -->", "pi": "<?vmon keep?>", "whitespace": "\n\n   \t  \n"}


LAYOUTS = ("one-line", "crlf", "blank-lines", "tabs", "no-indent", "entities")


def relayout(xml: bytes, layout):
    """change only the pretty-printer's own inter-element whitespace (newline + indentation between tags)"""
    import re
    if layout == "entities":
        # element text spelled with internal DTD entities (an XML parser hands the application the same text)
        from vmon.props.c06 import entityfy
        return entityfy(xml)
    rep = {"crlf": lambda m: b">\r\n" + m.group(1) + b"<", "blank-lines": lambda m: b">\n\n\n" + m.group(1) + b"<",
           "tabs": lambda m: b">\n" + b"\t" * (len(m.group(1)) // 2) + b"<", "no-indent": lambda m: b">\n<"}[layout]
    return re.sub(rb">\n( *)<", rep, xml)


def prefix_of(style):
    return style[1] if style[0] == "prefix" else None


def fingerprint(defn, doc, packets):
    w = definition_to_bytes(defn)
    canon = reader.normalize(reader.read_xml(w))
    dec = [solo_result(defn, raw) for raw in packets]
    return hashlib.sha256(repr((sorted(canon["types"].items()), sorted(canon["params"].items()), sorted(canon["containers"].items()),
                                canon.get("system"), getattr(defn, "space_system_name", None),
                                tuple(getattr(defn, a_, None) for a_ in ("date", "xtce_version", "validation_status")), dec)).encode()).hexdigest()


_FORM = {"n": 0, "dir": None}


def load_any_form(xml, prefix):
    """the document handed to from_xtce in rotating forms: in-memory binary stream, path as str, pathlib.Path, open binary
    file object; (prefix xtce only) also through the package-level load_xml(path)"""
    import io
    import pathlib
    import tempfile
    from space_packet_parser.xtce.definitions import XtcePacketDefinition
    _FORM["n"] += 1
    form = _FORM["n"] % 6
    _FORM["by_form"] = _FORM.get("by_form") or {}
    _FORM["by_form"][form] = _FORM["by_form"].get(form, 0) + 1
    if form in (0, 1):
        return load_definition(xml, prefix)
    if _FORM["dir"] is None:
        _FORM["dir"] = tempfile.mkdtemp(prefix="vmon-c16-", dir=os.environ.get("VMON_SCRATCH"))
    path = os.path.join(_FORM["dir"], "doc.xml")
    with open(path, "wb") as f:
        f.write(xml)
    try:
        if form == 2:
            return XtcePacketDefinition.from_xtce(path, xtce_ns_prefix=prefix)
        if form == 3:
            return XtcePacketDefinition.from_xtce(pathlib.Path(path), xtce_ns_prefix=prefix)
        if form == 4:
            with open(path, "rb") as f:
                return XtcePacketDefinition.from_xtce(f, xtce_ns_prefix=prefix)
        if prefix == "xtce":
            import space_packet_parser
            return space_packet_parser.load_xml(path)
        return XtcePacketDefinition.from_xtce(io.BytesIO(xml), xtce_ns_prefix=prefix)
    finally:
        os.unlink(path)


def load_fp(xml, style, doc, packets):
    st = monitored(load_any_form, xml, prefix_of(style))
    if st.exc is not None:
        return ("load-error", type(st.exc).__name__, str(st.exc)[:200])
    f = monitored(fingerprint, st.value, doc, packets)
    if f.exc is not None:
        return ("fingerprint-error", type(f.exc).__name__, str(f.exc)[:200])
    return ("ok", f.value)


def ns_state():
    """evidence only: the process-wide namespace state the loader leaves behind"""
    try:
        from space_packet_parser import common
        e = common.NamespaceAwareElement
        return (repr(getattr(e, "_ns_prefix", "?")), tuple(sorted((str(k), v) for k, v in (getattr(e, "_nsmap", {}) or {}).items())))
    except Exception:  # noqa: BLE001
        return ("?",)


def make_doc(seed, i):
    import random
    rng = random.Random(f"C16/{seed}/doc/{i}")
    doc = gen.gen_document(rng, gen.Profile(max_depth=2, max_fanout=2, p_context=0.6, p_calibrated=0.6, legacy_float_spellings=True))
    packets = gen.gen_packets(rng, doc, 6)
    if i % 4 == 1:
        import dataclasses
        doc = dataclasses.replace(doc, system_name=None)      # a SpaceSystem without a name attribute
    if i % 3 == 2:
        import dataclasses
        kids = [c for c in doc.containers if c.base is not None]
        if kids:
            # one container inherits unconditionally: <BaseContainer containerRef="..."/> is then an EMPTY element (a trivia site)
            k0 = kids[i % len(kids)]
            doc = dataclasses.replace(doc, containers=tuple(dataclasses.replace(c, criteria=None) if c is k0 else c for c in doc.containers))
    return doc, packets


def baseline_fresh(seed, i):
    """run in a child process: the document is the FIRST thing loaded"""
    doc, packets = make_doc(seed, i)
    xml = render.render_doc(doc)
    return load_fp(xml, ("prefix", "xtce"), doc, packets)


def bad_inputs(rng, doc):
    """renderings that must fail to load (and may leave state behind)"""
    good = render.render_doc(doc, ns_style=("prefix", "zz"))
    out = [("malformed", b"<xtce:SpaceSystem xmlns:xtce='u'><unclosed>", "xtce"),
           ("not-xml", b"\x00\x01 this is not xml", None),
           ("wrong-prefix", good, "xtce"),                       # document uses zz:, caller says xtce
           ("wrong-prefix-none", good, None),
           ("missing-sets", render.serialize(render.E("SpaceSystem", {"name": "x"}, [render.E("TelemetryMetaData")]), ("default",)), None)]
    # semantically broken: a parameter referencing an undefined type
    broken = ir.Doc(doc.types[:7], doc.params[:7] + (ir.Param("BROKEN", "NoSuchType"),), (ir.Container("CCSDSPacket", tuple(("p", p.name) for p in doc.params[:7]) + (("p", "BROKEN"),)),))
    out.append(("dangling-type", render.render_doc(broken, ns_style=("default",)), None))
    # failures INSIDE ContainerSet parsing, after other container references have already been resolved
    last = doc.containers[-1]
    for name, bad in (("bad-paramref-in-last-container", ir.Container("ZZ_Bad", (("p", "NoSuchParameter"),), doc.root, (ir.Comparison("VERSION", "0"),))),
                      ("bad-containerref-in-last-container", ir.Container("ZZ_Bad", (("c", "NoSuchContainer"),), doc.root, (ir.Comparison("VERSION", "0"),))),
                      ("bad-base-in-last-container", ir.Container("ZZ_Bad", (), "NoSuchBase", (ir.Comparison("VERSION", "0"),)))):
        d2 = ir.Doc(doc.types, doc.params, doc.containers + (bad,), doc.root, doc.system_name, doc.date)
        style = rng.choice([("prefix", "xtce"), ("default",), ("none",), ("prefix", "q")])
        out.append((name, render.render_doc(d2, ns_style=style), prefix_of(style)))
    # operator spellings the library does not accept (upper case): in a Condition's <ComparisonOperator> text and in a Comparison's
    # attribute. Both documents are invalid whatever was loaded before them.
    for name, crit in (("uppercase-operator-in-condition", ir.BoolExpr(ir.Condition("VERSION", "GEQ", right_value="0", right_cal=False))),
                       ("uppercase-operator-in-comparison", (ir.Comparison("VERSION", "0", "GEQ", False),)),
                       ("padded-operator-in-comparison", (ir.Comparison("VERSION", "0", " >= ", False),))):
        xt = ir.PType("OPX_Type", "float", ir.IntEnc(8, "unsigned", False, None, (ir.ContextCal(crit, ir.Poly(((2.0, 1),))),)))
        d3 = ir.Doc(doc.types[:7] + (xt,), doc.params[:7] + (ir.Param("OPX", "OPX_Type"),),
                    (ir.Container("CCSDSPacket", tuple(("p", p.name) for p in doc.params[:7]) + (("p", "OPX"),)),))
        style = rng.choice([("prefix", "xtce"), ("default",), ("none",)])
        out.append((name, render.render_doc(d3, ns_style=style), prefix_of(style)))
    return out


def directed_pairs():
    """hand-built document pairs that share exactly those things a process-wide cache could be keyed on: identical encoding
    elements, container / type / parameter names (with different content behind them)"""
    from space_packet_parser import packets as P
    from vmon.props.c05 import header_types
    ts, ps = header_types("PKT_APID")
    hdr = tuple(("p", p.name) for p in ps[:7])
    pairs = []
    # 1/2: a time type with scale/offset over an encoding element that the other document uses for a plain parameter
    for nm, enc in (("float32", ir.FloatEnc(32, "IEEE754", False)), ("uint16", ir.IntEnc(16, "unsigned"))):
        a = ir.Doc(tuple(ts) + (ir.PType("T_T", "abstime", enc, "s", scale=0.5, offset=10.0),), tuple(ps) + (ir.Param("T", "T_T"),),
                   (ir.Container("CCSDSPacket", hdr + (("p", "T"),)),))
        b = ir.Doc(tuple(ts) + (ir.PType("V_T", "float" if nm == "float32" else "integer", enc),), tuple(ps) + (ir.Param("V", "V_T"),),
                   (ir.Container("CCSDSPacket", hdr + (("p", "V"),)),))
        pairs.append((f"time-type-over-identical-{nm}-encoding", a, b, bytes(P.create_ccsds_packet(b"\x3f\xc0\x00\x00" if nm == "float32" else b"\x12\x34"))))
    # 3: same container / parameter-type / parameter NAMES with different content; both list an inheriting container before its
    #    base, and the base embeds the same-named container
    docs = []
    for width, twice in ((8, False), (16, True)):
        xt = ir.PType("X_T", "integer", ir.IntEnc(width, "unsigned"))
        docs.append(ir.Doc(tuple(ts) + (xt,), tuple(ps) + (ir.Param("X", "X_T"), ir.Param("VERSION2", "VERSION_Type")),
                           (ir.Container("Leaf", (("p", "VERSION2"),), "Base", (ir.Comparison("VERSION", "0"),)),
                            ir.Container("Base", (("c", "Inner"),), "CCSDSPacket", (ir.Comparison("TYPE", "0"),)),
                            ir.Container("CCSDSPacket", hdr), ir.Container("Inner", (("p", "X"),) * (2 if twice else 1)))))
    pairs.append(("same-names-different-content", docs[0], docs[1], bytes(P.create_ccsds_packet(b"\xab\xcd\x05"))))
    # 4: header metadata: one document states date / version / validation status, the other has a Header without a date
    import dataclasses
    pairs.append(("header-with-and-without-date", dataclasses.replace(docs[0], date="2031-05-06T07:08:09", version="3.1", validation="Released"),
                  dataclasses.replace(docs[0], date=None), bytes(P.create_ccsds_packet(b"\xab\xcd\x05"))))
    return pairs


def directed_fresh(k, role):
    """run in a child process: document `role` (0/1) of directed pair k is the FIRST thing loaded"""
    name, a, b, raw = directed_pairs()[k]
    d = (a, b)[role]
    return load_fp(render.render_doc(d), ("prefix", "xtce"), d, [raw])


def same_path_same_stat(ctx):
    """two different documents loaded one after the other from the SAME path, the second written with the same byte length and the
    same time stamps as the first (a rewrite within the file system's time-stamp granularity, an mtime-preserving copy): each load gives
    the document that is in the file"""
    import pathlib
    import shutil
    import tempfile
    from space_packet_parser.xtce.definitions import XtcePacketDefinition
    d = tempfile.mkdtemp(prefix="vmon-c16-", dir=os.environ.get("VMON_SCRATCH"))
    try:
        for k, (name, a, b, raw) in enumerate(directed_pairs()):
            xa, xb = render.render_doc(a), render.render_doc(b)
            n = max(len(xa), len(xb))
            xa, xb = xa + b"\n" * (n - len(xa)), xb + b"\n" * (n - len(xb))
            want = [monitored(lambda x=x, dd=dd: fingerprint(load_definition(x, "xtce"), dd, [raw])) for x, dd in ((xa, a), (xb, b))]
            path = os.path.join(d, f"same-{k}.xml")
            for step, role in enumerate((0, 1, 0)):
                with open(path, "wb") as f:
                    f.write((xa, xb)[role])
                if step == 0:
                    st0 = os.stat(path)
                else:
                    os.utime(path, ns=(st0.st_atime_ns, st0.st_mtime_ns))
                got = monitored(lambda: fingerprint(XtcePacketDefinition.from_xtce(path if step % 2 == 0 else pathlib.Path(path), xtce_ns_prefix="xtce"), (a, b)[role], [raw]))
                ctx.count("evaluations")
                ctx.count("history.same_path_same_stat")
                ctx.sig("history", "same-path-same-stat", name, step)
                if want[role].exc is not None:
                    continue
                if got.exc is not None or got.value != want[role].value:
                    ctx.violation(f"history/same-path-same-size-and-mtime/{name}/{'ok' if got.exc is None else type(got.exc).__name__}",
                                  f"'{name}': document {role} loaded from a path that held the other document before (same byte length, same time stamps) "
                                  f"does not give that document's definition ({got.exc!r})", {"pair": name, "step": step})
                    break
    finally:
        shutil.rmtree(d, ignore_errors=True)


def directed_histories(ctx):
    """each directed pair: A, (a variant of A that fails half-way through its ContainerSet), B, A, B in rotating conventions; every
    load's fingerprint is compared with the fingerprint the same document has when it is the first thing a fresh process loads."""
    import dataclasses
    from vmon.core import HarnessError
    for k, (name, a, b, raw) in enumerate(directed_pairs()):
        fresh = []
        for role in (0, 1):
            p = subprocess.run([sys.executable, "-m", "vmon.props.c16", "directed", str(k), str(role)], capture_output=True, text=True, timeout=600)
            if p.returncode != 0:
                raise HarnessError("directed baseline child failed: " + p.stderr[-600:])
            fresh.append(tuple(json.loads(p.stdout.strip().splitlines()[-1])))
            ctx.count("baseline.fresh_process")
            if fresh[-1][0] != "ok":
                ctx.violation(f"baseline/{fresh[-1][0]}/{fresh[-1][1]}", f"directed document '{name}'[{role}] does not load in a fresh process: {fresh[-1][:3]}", {"pair": name})
        if any(f[0] != "ok" for f in fresh):
            continue
        styles = (("prefix", "xtce"), ("default",), ("none",), ("prefix", "p"))
        for step, role in enumerate((0, 1, 0, 1, 1, 0)):
            style = styles[(step + k) % 4]
            d = (a, b)[role]
            if step == 1:
                bad = dataclasses.replace(a, containers=a.containers + (ir.Container("ZZ", (("p", "NoSuchParameter"),)),))
                monitored(load_definition, render.render_doc(bad, ns_style=style), prefix_of(style))
            got = load_fp(render.render_doc(d, ns_style=style), style, d, [raw])
            ctx.count("evaluations")
            ctx.count("history.directed_pairs")
            ctx.sig("history", "directed", name, step, style[0])
            if got != fresh[role]:
                ctx.violation(f"history/directed/{name}/{got[0]}{'/' + got[1] if got[0] != 'ok' else ''}",
                              f"'{name}': document {role} loaded at step {step} of the history A,B,A,B,B,A gives {got[:3]}, in a fresh process {fresh[role][:2]}",
                              {"pair": name, "style": style, "step": step})
                break


def run(ctx):
    import random
    if ctx.shard % 4 == 1:
        directed_histories(ctx)        # first thing in this worker process, before anything else has been loaded
    if ctx.shard % 4 == 2:
        same_path_same_stat(ctx)
    states = set()
    ids = [i for i in range(ctx.size(48, 2000)) if ctx.mine(i)]
    probed_paths = set()
    # ---- fresh-process baselines for a sample of documents ---------------------------------------------------------------
    fresh_ids = ids[:ctx.size(2, 12)]
    fresh = {}
    for i in fresh_ids:
        p = subprocess.run([sys.executable, "-m", "vmon.props.c16", str(ctx.seed), str(i)], capture_output=True, text=True, timeout=600)
        if p.returncode != 0:
            from vmon.core import HarnessError
            raise HarnessError("baseline child failed: " + p.stderr[-600:])
        fresh[i] = tuple(json.loads(p.stdout.strip().splitlines()[-1]))
        ctx.count("baseline.fresh_process")
    others = [make_doc(ctx.seed, 10_000 + k) for k in range(3)]
    for i in ids:
        rng = random.Random(f"C16/{ctx.seed}/run/{i}")
        doc, packets = make_doc(ctx.seed, i)
        base_xml = render.render_doc(doc)
        base = load_fp(base_xml, ("prefix", "xtce"), doc, packets)
        states.add(ns_state())
        ctx.count("evaluations")
        if base[0] != "ok":
            ctx.violation(f"baseline/{base[0]}/{base[1]}", f"plain rendering does not load: {base}", {"doc": i})
            continue
        if i in fresh and fresh[i] != base:
            ctx.violation("history/differs-from-fresh-process", "fingerprint in this (used) process differs from the fresh-process baseline", {"doc": i, "fresh": fresh[i], "here": base})
        # ---- (a) namespace conventions ---------------------------------------------------------------------------------
        for style in STYLES:
            xml = render.render_doc(doc, ns_style=style, opts=render.Opts(explicit=None, rng=rng),
                                    extra_ns=rng.choice([None, {"xsi": "http://www.w3.org/2001/XMLSchema-instance"},
                                                         {"xsi": "http://www.w3.org/2001/XMLSchema-instance", "": "http://www.w3.org/1999/xhtml"},
                                                         {"": "urn:example:other", "xtce2": "http://www.omg.org/space/xtce"}]))
            if style[0] == "prefix":
                ctx.count("spelling.prefix_styles")
            fp = load_fp(xml, style, doc, packets)
            states.add(ns_state())
            ctx.count("evaluations")
            ctx.count("spelling.styles")
            if style != ("prefix", "xtce"):
                ctx.sig("style", style)
            if fp != base:
                ctx.violation(f"spelling/namespace/{style[0]}{'-' + style[1] if len(style) > 1 and style[1] != 'xtce' else ''}/{fp[0]}{'/' + fp[1] if fp[0] != 'ok' else ''}",
                              f"rendering with namespace convention {style} gives {fp[:2]} instead of the baseline definition", {"doc": i, "style": style, "result": fp})
        # ---- (a) the XTCE namespace bound twice on the root (default + prefix, or two prefixes): the elements are spelled with one binding,
        #          the caller names the other one - a valid key of the document's namespace map that resolves to the same URI
        for style in (("default",), ("prefix", "q")):
            xml = render.render_doc(doc, ns_style=style)
            import re as _re
            m = _re.search(rb"<(?:q:)?SpaceSystem\b[^>]*", xml)
            if m is None:
                from vmon.core import HarnessError
                raise HarnessError("root start tag not found")
            uri = _re.search(rb'xmlns(?::q)?="([^"]+)"', m.group(0)).group(1)
            xml2 = xml[:m.end()] + b' xmlns:xtce="' + uri + b'"' + xml[m.end():]
            fp = load_fp(xml2, ("prefix", "xtce"), doc, packets)
            ctx.count("evaluations")
            ctx.count("spelling.namespace_bound_twice")
            ctx.sig("style", "bound-twice", style[0])
            if fp != base:
                ctx.violation(f"spelling/namespace/bound-twice-{style[0]}/{fp[0]}{'/' + fp[1] if fp[0] != 'ok' else ''}",
                              f"XTCE namespace bound twice (elements spelled with the {style} binding, xtce_ns_prefix='xtce' naming the other) gives {fp[:2]} instead of the baseline definition",
                              {"doc": i, "style": style, "result": fp})
        # ---- (a) inter-element whitespace layouts: none at all (whole document on one line), CRLF, blank lines, tabs ------
        for li, layout in enumerate(LAYOUTS):
            style = STYLES[(i + li) % len(STYLES)] if li % 2 else (("prefix", "xtce"), ("default",), ("none",))[(i + li) % 3]
            if layout == "one-line":
                xml = render.render_doc(doc, ns_style=style, pretty=False)
            else:
                xml = relayout(render.render_doc(doc, ns_style=style), layout)
            fp = load_fp(xml, style, doc, packets)
            ctx.count("evaluations")
            ctx.count(f"layout.{layout}")
            ctx.sig("layout", layout, style[0])
            if fp != base:
                ctx.violation(f"spelling/layout/{layout}/{fp[0]}{'/' + fp[1] if fp[0] != 'ok' else ''}",
                              f"the document laid out as '{layout}' (namespace convention {style}) gives {fp[:2]} instead of the baseline definition",
                              {"doc": i, "style": style, "layout": layout, "result": fp})
        # ---- (a) trivia at every element-only parent path --------------------------------------------------------------
        root_el = render.doc_el(doc, render.Opts())
        paths = render.element_only_paths(root_el)
        for pth in paths:
            tail = pth.rsplit("/", 1)[-1]
            for kind, text in TRIVIA.items():
                style = STYLES[(len(pth) + len(kind)) % len(STYLES)]

                def trivia(path, idx, n, pth=pth, text=text):
                    return text if path == pth else ""
                xml = render.serialize(root_el, style, trivia)
                fp = load_fp(xml, style, doc, packets)
                ctx.count("evaluations")
                ctx.count(f"trivia.{kind}")
                probed_paths.add(pth)
                if tail in ("ContextCalibratorList", "EntryList", "ComparisonList"):
                    ctx.count(f"path.{tail}")
                if tail == "BaseContainer" and any(c.base is not None and c.criteria is None for c in doc.containers):
                    ctx.count("path.BaseContainer")       # incl. trivia inside an EMPTY BaseContainer element
                ctx.sig("trivia", kind, pth.replace("/SpaceSystem/TelemetryMetaData", ""))
                if fp != base:
                    ctx.violation(f"spelling/trivia/{kind}/in-{tail}/{fp[0]}{'/' + fp[1] if fp[0] != 'ok' else ''}",
                                  f"{kind} between the children of {pth} changes the result: {fp[:3]}", {"doc": i, "path": pth, "kind": kind, "style": style})
        # ---- (b) histories ------------------------------------------------------------------------------------------------
        for h in range(ctx.size(6, 12)):
            hist = []
            for _ in range(rng.randrange(0, 6)):
                if rng.random() < 0.45:
                    name, data, pfx = rng.choice(bad_inputs(rng, doc))
                    st = monitored(load_definition, data, pfx)
                    hist.append("bad:" + name + (":loaded!" if st.exc is None else ""))
                    ctx.count("history.failed_prior_loads")
                    if st.exc is None:
                        # an invalid document stays invalid whatever was loaded before it
                        ctx.violation(f"history/invalid-document-loaded/{name}", f"the invalid document '{name}' loaded without error after history {hist[:-1]}",
                                      {"doc": i, "history": hist})
                else:
                    od, _op = rng.choice(others)
                    style = rng.choice(STYLES)
                    st = monitored(load_definition, render.render_doc(od, ns_style=style), prefix_of(style))
                    hist.append("ok:" + style[0] + (style[1] if len(style) > 1 else ""))
                states.add(ns_state())
            style = rng.choice(STYLES)
            if hist and not hist[-1].startswith("ok:" + style[0] + (style[1] if len(style) > 1 else "")):
                ctx.count("history.style_changes")
            fp = load_fp(render.render_doc(doc, ns_style=style), style, doc, packets)
            states.add(ns_state())
            ctx.count("evaluations")
            ctx.count("history.runs")
            ctx.sig("history", tuple(x.split(":")[0] + ":" + x.split(":")[1][:8] for x in hist), style[0])
            if fp != base:
                last = hist[-1] if hist else "none"
                ctx.violation(f"history/{fp[0]}{'/' + fp[1] if fp[0] != 'ok' else ''}/after-{last.split(':')[0]}-{last.split(':')[1] if ':' in last else ''}/then-{style[0]}",
                              f"loading after history {hist} gives {fp[:3]} instead of the baseline", {"doc": i, "history": hist, "style": style})
        if i == ids[0]:
            ctx.sample({"doc": i, "parent_paths_probed": len(paths), "example_paths": [p.replace('/SpaceSystem/TelemetryMetaData', '') for p in paths[:10]],
                        "baseline": base[1][:16]})
    special_names(ctx)
    ctx.count("load.forms_rotated", _FORM["n"])
    for f_, name_ in ((2, "str-path"), (3, "Path"), (4, "open-file"), (5, "load_xml-or-stream")):
        ctx.count(f"load.form.{name_}", (_FORM.get("by_form") or {}).get(f_, 0))
    if _FORM["dir"] is not None:
        import shutil
        shutil.rmtree(_FORM["dir"], ignore_errors=True)
    ctx.count("trivia.paths_probed", len(probed_paths))
    ctx.count("namespace_class_states_seen", len(states))
    ctx.note("namespace class states seen: " + repr(sorted(states))[:600])


SPECIAL = ['"1', "+TEMP", ",VOLT", "#B", "-x", "=y", "@z", "(1)", "-1", "+1", ",1", "=1", "#1", "@1", "*", "|1", "{1}", "~1", "!", "$", "%1", ";1", "?", "\u00e4", "&1", "<1", ")(", "(", "_x-y.z"[:4]]


def special_names(ctx):
    """names are data, not syntax: containers / parameters / types whose names contain characters XTCE permits in names (everything but
    . / : [ ] and white space) must load identically under every namespace convention. Referenced by BaseContainer, ContainerRefEntry,
    ParameterRefEntry and parameterTypeRef."""
    from space_packet_parser import packets as P
    from vmon.props.c05 import header_types
    for si, suffix in enumerate(SPECIAL):
        if not ctx.mine(si):
            continue
        ts, ps = header_types("PKT_APID")
        ts.append(ir.PType("X" + suffix + "_Type", "integer", ir.IntEnc(8)))
        ps.append(ir.Param("X" + suffix, "X" + suffix + "_Type"))
        root = ir.Container("CCSDSPacket", tuple(("p", p.name) for p in ps[:7]), None, None, True)
        kid = ir.Container("K" + suffix, (("p", "X" + suffix),), "CCSDSPacket", (ir.Comparison("VERSION", "0"),))
        nest = ir.Container("N" + suffix, (("p", "X" + suffix),))
        kid2 = ir.Container("Z", (("c", "N" + suffix),), "CCSDSPacket", (ir.Comparison("VERSION", "1"),))
        grand = ir.Container("G", (), "K" + suffix, (ir.Comparison("TYPE", "1"),))
        doc = ir.Doc(tuple(ts), tuple(ps), (root, kid, kid2, nest, grand))
        packets = [bytes(P.create_ccsds_packet(b"\x07", version_number=v, type=t_)) for v, t_ in ((0, 0), (1, 0), (0, 1), (2, 0))]
        fps = {}
        for style in (("prefix", "xtce"), ("default",), ("none",), ("prefix", "p"), ("prefix", "K")):
            fps[style] = load_fp(render.render_doc(doc, ns_style=style), style, doc, packets)
            ctx.count("evaluations")
            ctx.count("special_names.loads")
        ctx.sig("special-name", suffix)
        outcomes = {k: (v[0], v[1]) for k, v in fps.items()}
        if len(set(outcomes.values())) > 1:
            failing = sorted("-".join(k) for k, v in outcomes.items() if v[0] != "ok")
            cls = "parenthesis" if ("(" in suffix or ")" in suffix) else "other"
            ctx.violation(f"spelling/names-with-special-characters/{cls}/{'fails-in-' + '+'.join(sorted({f.split('-')[0] for f in failing})) if failing else 'differs'}",
                          f"a document whose names end in {suffix!r} loads differently under different namespace conventions: "
                          f"{ {'-'.join(k): v[0] + ('/' + v[1] if v[0] != 'ok' else '') for k, v in outcomes.items()} }",
                          {"suffix": suffix, "outcomes": {"-".join(k): list(v) for k, v in outcomes.items()}})


if __name__ == "__main__":
    if sys.argv[1] == "directed":
        print(json.dumps(directed_fresh(int(sys.argv[2]), int(sys.argv[3]))))
    else:
        print(json.dumps(baseline_fresh(int(sys.argv[1]), int(sys.argv[2]))))
