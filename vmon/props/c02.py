"""C02 — stream framing is exact and independent of source kind and chunking.

Monitor shape T+F: a recorder on the source (every read/recv: requested, returned) and on the consumer (every
next(): item / StopIteration / exception); offline checker: yielded == the packet list, byte-identical and in order;
conservation (bytes delivered by the source >= bytes accounted for by yielded packets + prefixes); for bytes/file
sources StopIteration right after the last packet; for sockets exactly N items are taken and the framer must never
ask a quiet socket for bytes it does not need (ScriptedSocket.blocked == 0).
Faults/schedules injected: every composition of a 14-byte stream into recv chunks, read sizes, short reads,
real socketpair with a feeder thread, a 21 MB stream that crosses the internal buffer-trim threshold.
"""
import io
import itertools
import os
import tempfile

from vmon import sources
from vmon.libutil import monitored

LEVEL = "exploration"
SHARDS = {"quick": 16, "thorough": 16}
MUST = ["single_packet_sources", "bigstream.reads_on_packet_borders", "schedules.cut_inside_header", "schedules.several_packets_per_delivery", "option.show_progress", "option.show_progress.socket", "option.show_progress.file", "option.show_progress.bytes", "kind.bytes_subclass", "filemoved.read-all", "filemoved.seek-end", "filemoved.other-generator", "kind.bytes", "kind.file", "kind.socket", "kind.socketpair", "kind.realsocket.blocking-stream", "kind.realsocket.seqpacket", "kind.realsocket.datagram", "kind.realfile",
        "bigstream.packets", "via_packet_generator", "filepos.written", "filepos.partly-read", "filepos.at-end", "filepos.parsed-once", "file.update_mode", "header.all-zero"]
RULE = ("each case = (packet list, prefix length k, source kind, read size / recv schedule); the generator is stepped "
        "with next() under a step budget and the yielded sequence compared with the packet list. Enumerated "
        "completely: all 2^13 recv compositions of a 14-byte two-packet stream and all 2^9 of a 10-byte prefixed "
        "stream. Also: read sizes {1,2,3,5,6,7,8,13,64,4096,default,>len} x prefixes {0,1,4,6,7,13} x data lengths "
        "{1,2,255,256,4090,4091,65535,65536}, chunk borders inside a header / on a packet border / one byte either "
        "side, legal short reads, real files, real socketpairs fed by a thread, packet_generator(ccsds_headers_only), "
        "random header words, and a 21 MB stream (buffer-trim branch); the stream as the library's own bytes subclass; "
        "show_progress=True on bytes, file and socket runs; socket deliveries holding several whole packets; file objects "
        "used by someone else (read to the end / seek / a second generator consumed first) between creating the generator "
        "and taking the first packet; files opened for update and handed over partly unflushed. distinct_nontrivial = distinct (source kind, "
        "read-size class, prefix class, cut-position classes, size class) signatures; a single small packet read "
        "from bytes with k=0 is the trivial case and is excluded.")
ASSUMPTIONS = ["on sockets there is no end of stream: exactly N items are taken (what happens after the peer closes is C10)",
               "a ScriptedSocket that is asked for data the schedule has not delivered raises TimeoutError; the framer "
               "asking for it before all fully delivered packets are out is reported as a violation (it would block)"]


def mkpacket(rng, dlen, hdr4=None):
    # header words: random, with the all-zero / all-one / single-bit patterns over-represented (an all-zero primary header
    # with a one-byte data field is a legal packet)
    h = hdr4 if hdr4 is not None else rng.choice([rng.getrandbits(32), rng.getrandbits(32), 0, 0xFFFFFFFF, 1 << rng.randrange(32), 0xC000]).to_bytes(4, "big")
    return h + (dlen - 1).to_bytes(2, "big") + bytes(rng.getrandbits(8) for _ in range(min(dlen, 64))) * 1 + \
        (bytes([rng.getrandbits(8)]) * (dlen - 64) if dlen > 64 else b"")


def build(rng, dlens, k):
    pkts = [mkpacket(rng, d) for d in dlens]
    prefixes = [bytes(rng.getrandbits(8) | 0x80 for _ in range(k)) for _ in pkts]
    stream = b"".join(p + q for p, q in zip(prefixes, pkts))
    return pkts, stream


def step_all(ctx, gen, n_expected, take_exactly=None):
    """Advance the generator under a step budget. Returns (items, end) where end in
    {'stop', 'budget', 'taken', ('exc', e)}"""
    items = []
    budget = n_expected + 3
    for _ in range(budget):
        if take_exactly is not None and len(items) == take_exactly:
            return items, "taken"
        s = monitored(next, gen)
        if isinstance(s.exc, StopIteration):
            return items, "stop"
        if s.exc is not None:
            return items, ("exc", s.exc)
        items.append(s.value)
    return items, "budget"


def judge(ctx, kind, pkts, items, end, wit, want_end):
    from space_packet_parser import packets as P
    ctx.count("evaluations")
    ctx.count(f"kind.{kind}")
    mech = None
    got = [bytes(x) for x in items]
    if isinstance(end, tuple):
        mech, msg = f"exception/{type(end[1]).__name__}", f"framer raised {end[1]!r} after {len(items)} packets"
    elif got != pkts:
        n_ok = next((i for i, (a, b) in enumerate(zip(got, pkts)) if a != b), min(len(got), len(pkts)))
        what = "missing" if len(got) < len(pkts) and got == pkts[:len(got)] else \
               "extra" if len(got) > len(pkts) and got[:len(pkts)] == pkts else "content"
        mech, msg = f"sequence/{what}", f"yielded {len(got)} packets, expected {len(pkts)}; first difference at index {n_ok}"
    elif end != want_end:
        mech, msg = f"end/{end}", f"after the last packet the generator ended with {end!r}, expected {want_end!r}"
    elif any(not isinstance(x, P.RawPacketData) for x in items):
        mech, msg = "class", "yielded object is not a RawPacketData"
    if mech:
        ctx.violation(f"{kind}/{mech}", msg, dict(wit, yielded=[g[:12] for g in got[:6]], expected=[p[:12] for p in pkts[:6]]))
        return False
    return True


def run_case(ctx, kind, pkts, stream, k, r=None, chunks=None, rng=None, via_def=False, sig=(), progress=False, moved=None):
    """progress: show_progress=True (a display option; its output is swallowed). moved: what happens to a file source between
    the creation of the generator and its first next() - 'read-all', 'seek-end', 'other-generator' (a second generator over
    the same file object consumed first)"""
    if progress:
        import contextlib
        ctx.count("option.show_progress")
        ctx.count(f"option.show_progress.{kind}")
        with contextlib.redirect_stdout(io.StringIO()):
            return _run_case(ctx, kind, pkts, stream, k, r, chunks, rng, via_def, sig, True, moved)
    return _run_case(ctx, kind, pkts, stream, k, r, chunks, rng, via_def, sig, False, moved)


def _run_case(ctx, kind, pkts, stream, k, r, chunks, rng, via_def, sig, progress, moved):
    from space_packet_parser import packets as P
    kw = {"skip_header_bytes": k}
    if progress:
        kw["show_progress"] = True
    if r is not None:
        kw["buffer_read_size_bytes"] = r
    wit = {"kind": kind, "k": k, "read_size": r, "n_packets": len(pkts), "stream_len": len(stream),
           "data_lens": [len(p) - 6 for p in pkts[:8]], "chunks": (chunks[:40] if chunks else None)}
    src = None
    tmp = None
    try:
        if kind == "bytes":
            src = stream
        elif kind == "rawpacketdata":
            src = P.RawPacketData(stream)      # a bytes object of the library's own bytes subclass holding the whole stream
        elif kind == "file":
            src = sources.RecordingFile(stream)
        elif kind == "shortfile":
            src = sources.RecordingFile(stream, mode="short", rng=rng)
        elif kind == "bytesio":
            src = io.BytesIO(stream)
        elif kind == "bytesio-pos":
            # a file object whose position is NOT at the start (filled by write(), partly read, or already parsed once):
            # the framer frames the whole file from its beginning whatever the current position is
            how = rng.randrange(4)
            ctx.count(f"filepos.{('written', 'partly-read', 'at-end', 'parsed-once')[how]}")
            if how == 0:
                src = io.BytesIO()
                for i in range(0, len(stream), 97):
                    src.write(stream[i:i + 97])
            else:
                src = io.BytesIO(stream)
                if how == 1:
                    src.read(rng.randrange(1, len(stream) + 1))
                elif how == 2:
                    src.seek(0, 2)
                else:
                    # framed once while it held only the first packets; the writer then appends the rest
                    nb = len(pkts) // 2
                    cutb = sum(k + len(p_) for p_ in pkts[:nb])
                    src = io.BytesIO(stream[:cutb])
                    first = [bytes(x) for x in itertools.islice(P.ccsds_generator(src, **kw), len(pkts) + 1)]
                    if first != pkts[:nb]:
                        ctx.violation("file/first-pass", "first pass over a BytesIO differs from the packet list", wit)
                    src.seek(0, 2)
                    src.write(stream[cutb:])
        elif kind == "realfile":
            fd, tmp = tempfile.mkstemp(prefix="vmon-c02-", dir=os.environ.get("VMON_SCRATCH"))
            os.write(fd, stream)
            os.close(fd)
            src = open(tmp, "rb")
        elif kind == "realfile-update":
            # a real file opened for update, written in pieces, only partly flushed, handed over without rewinding
            fd, tmp = tempfile.mkstemp(prefix="vmon-c02-", dir=os.environ.get("VMON_SCRATCH"))
            os.close(fd)
            src = open(tmp, "w+b")
            borders, pos_ = [], 0
            for p_ in pkts:
                pos_ += k + len(p_)
                borders.append(pos_)
            cutp = rng.choice(borders) if rng.random() < 0.7 else rng.randrange(0, len(stream) + 1)   # e.g. a checkpoint after a batch
            src.write(stream[:cutp])
            src.flush()
            src.write(stream[cutp:])
        elif kind == "socket":
            src = sources.ScriptedSocket(sources.cut(stream, chunks))
        elif kind == "socketpair":
            src, th, snd = sources.socketpair_feed(stream, chunks, close=False)
        if via_def:
            from space_packet_parser.xtce.definitions import XtcePacketDefinition
            gen = XtcePacketDefinition().packet_generator(src, ccsds_headers_only=True, **kw)
            ctx.count("via_packet_generator")
        else:
            gen = P.ccsds_generator(src, **kw)
        if moved is not None:
            # the file object is used by someone else between handing it to the framer and taking the first packet
            ctx.count(f"filemoved.{moved}")
            if moved == "read-all":
                src.read()
            elif moved == "seek-end":
                src.seek(0, 2)
            else:
                other = [bytes(x) for x in itertools.islice(P.ccsds_generator(src, **kw), len(pkts) + 1)]
                if other != pkts:
                    ctx.violation("file/other-generator-on-same-file", "a second generator over the same file object, consumed first, differs from the packet list", wit)
        is_sock = kind in ("socket", "socketpair")
        items, end = step_all(ctx, gen, len(pkts), take_exactly=len(pkts) if is_sock else None)
        ok = judge(ctx, {"shortfile": "file", "bytesio": "file", "bytesio-pos": "file", "realfile-update": "realfile", "rawpacketdata": "bytes"}.get(kind, kind)
                   + ("/moved-before-first-next" if moved else "") + ("/show_progress" if progress else ""), pkts, items, end, wit,
                   "taken" if is_sock else "stop")
        gen.close()
        # ---- source-side history checks ---------------------------------------------------------------
        if kind == "socket":
            if src.blocked:
                ctx.violation("socket/over-read", f"framer called recv() {src.blocked}x on a socket with nothing scheduled "
                              "although every packet it was asked for had been delivered in full (would block forever)", wit)
            if ok and src.delivered < sum(len(p) + k for p in pkts):
                ctx.violation("socket/conservation", "yielded more bytes than the source delivered", wit)
        if kind in ("file", "shortfile") and ok and moved is None:
            delivered = sum(n for _, n in src.log)
            if delivered != len(stream):
                ctx.violation("file/conservation", f"source delivered {delivered} of {len(stream)} bytes yet all packets were yielded", wit)
            if src.eof_calls > 2:
                ctx.violation("file/eof-spin", f"{src.eof_calls} reads answered with EOF", wit)
        if sig:
            ctx.sig(kind, *sig)
    finally:
        if kind in ("socket", "socketpair") and src is not None:
            src.close()
            if kind == "socketpair":
                snd.close()
                th.join(5)
        if kind in ("realfile", "realfile-update") and src is not None:
            src.close()
            os.unlink(tmp)


def real_socket_case(ctx, flavour, pkts, stream, k, rng):
    """flavour 'blocking-stream': a blocking stream socket WITHOUT a timeout whose peer has sent every packet and keeps the
    connection open - the N packets come out without waiting for more. 'seqpacket' / 'datagram': message-oriented sockets delivering
    the stream in messages of at most 4096 bytes (what one default-sized recv() takes in full)."""
    import socket
    import threading
    from space_packet_parser import packets as P
    if flavour == "blocking-stream":
        a, b = socket.socketpair()
        b.settimeout(None)
        msgs = [stream]
    else:
        a, b = socket.socketpair(socket.AF_UNIX, socket.SOCK_SEQPACKET if flavour == "seqpacket" else socket.SOCK_DGRAM)
        b.settimeout(30)
        msgs, pos = [], 0
        while pos < len(stream):
            c = rng.choice([1, 5, 6, 7, 20, 300, 4096])
            msgs.append(stream[pos:pos + c])
            pos += c
    a.settimeout(120)
    feeder = None
    if flavour == "blocking-stream":
        a.sendall(stream)            # a few kB: all of it is in the kernel's buffer before the framer starts
    else:
        def feed():                  # the kernel queues only so many datagrams: the sender may have to wait for the reader
            try:
                for m in msgs:
                    a.send(m)
            except OSError:
                pass
        feeder = threading.Thread(target=feed, daemon=True)
        feeder.start()
    got, err = [], []

    def consume():
        g = P.ccsds_generator(b, skip_header_bytes=k)
        try:
            for _ in range(len(pkts)):
                got.append(bytes(next(g)))
        except BaseException as e:  # noqa: BLE001
            err.append(e)

    t = threading.Thread(target=consume, daemon=True)
    t.start()
    t.join(60 if flavour == "blocking-stream" else 150)    # generous watchdog (blocking flavour: every byte was delivered before the framer started)
    hung, n_before = t.is_alive(), len(got)
    a.close()                       # lets a blocked recv() return
    t.join(10)
    b.close()
    if feeder is not None:
        feeder.join(10)
    ctx.count("evaluations")
    ctx.count(f"kind.realsocket.{flavour}")
    wit = {"flavour": flavour, "k": k, "n_packets": len(pkts), "stream_len": len(stream), "messages": [len(m) for m in msgs][:40]}
    if hung and flavour != "blocking-stream":
        ctx.note(f"{flavour} socket case not finished after 150 s (n={len(pkts)}, {len(msgs)} messages): not judged")
    elif hung:
        ctx.violation(f"socket/{flavour}/blocked-although-delivered", f"{n_before} of {len(pkts)} fully delivered packets came out of a {flavour} socket whose peer "
                      "keeps the connection open; the framer was still waiting after 60 s", wit)
    elif err or got != pkts:
        ctx.violation(f"socket/{flavour}/sequence", f"{len(got)} packets / {err[:1]!r} from a {flavour} socket, expected the {len(pkts)} sent", wit)


def rclass(r, n):
    return "default" if r is None else "1" if r == 1 else "<hdr" if r < 6 else "=hdr" if r == 6 else ">len" if r > n else "mid"


def run(ctx):
    rng = ctx.rng("c02")
    item = 0

    # ---- 1. every composition of a 14-byte two-packet stream into recv chunks (2^13) ---------------------
    import random
    fixed = random.Random(99)
    pk14, st14 = build(fixed, [1, 1], 0)          # 7 + 7 bytes
    for ci, comp in enumerate(sources.compositions(14)):
        if not ctx.mine(ci):
            continue
        run_case(ctx, "socket", pk14, st14, 0, r=None, chunks=comp, sig=("comp14", len(comp), comp[0] if comp[0] < 8 else 8))
        pos, inside = 0, False
        for c in comp[:-1]:
            pos += c
            if pos % 7 in (1, 2, 3, 4, 5):
                inside = True
        if inside:
            ctx.count("schedules.cut_inside_header")
    ctx.exhaustive_space("recv compositions of a 14-byte two-packet stream", 8192 // ctx.nshards)
    pk10, st10 = build(fixed, [2], 2)             # 2 prefix + 6 + 2 = 10 bytes
    for ci, comp in enumerate(sources.compositions(10)):
        if ctx.mine(ci):
            run_case(ctx, "socket", pk10, st10, 2, chunks=comp, sig=("comp10", len(comp)))
    ctx.exhaustive_space("recv compositions of a 10-byte prefixed stream", 512 // ctx.nshards)

    # ---- 2. read sizes x prefixes x data lengths ----------------------------------------------------------
    rsizes = [1, 2, 3, 5, 6, 7, 8, 13, 64, 4096, None, 10 ** 7]
    prefixes = [0, 1, 4, 6, 7, 13]
    dls = [1, 2, 255, 256, 4090, 4091, 65535, 65536]
    for r in rsizes:
        for k in prefixes:
            for dl in dls:
                item += 1
                if not ctx.mine(item):
                    continue
                if r is not None and r <= 3 and dl > 4091:
                    continue  # quadratic bytes+= in the framer; covered at r>=5
                dlens = [dl, rng.choice([1, 3, 9]), dl if dl < 5000 else 2]
                pkts, stream = build(rng, dlens, k)
                sc = ("L" + str(dl.bit_length()), "k" + str(k))
                run_case(ctx, "bytes", pkts, stream, k, sig=sc if (k or dl > 2) else (), progress=item % 6 == 1)
                run_case(ctx, "file", pkts, stream, k, r=r, sig=(rclass(r, len(stream)),) + sc, progress=item % 6 == 2)
                if item % 3 == 1:
                    run_case(ctx, "rawpacketdata", pkts, stream, k, sig=("bytes-subclass",) + sc)
                    ctx.count("kind.bytes_subclass")
                if item % 4 == 1 and len(stream) < 200000:
                    mv = ("read-all", "seek-end", "other-generator")[(item // 4) % 3]
                    run_case(ctx, "bytesio" if item % 8 == 1 else "file", pkts, stream, k, r=r, moved=mv, sig=("moved", mv, rclass(r, len(stream))))
                if r is not None:
                    run_case(ctx, "shortfile", pkts, stream, k, r=max(r, 2), rng=rng, sig=(rclass(r, len(stream)),) + sc)
                    # socket with recv size r and random fragmentation
                    sizes = []
                    left = len(stream)
                    while left > 0:
                        c = rng.choice([1, 2, 5, 6, 7, 100, 5000, 70000])
                        c = min(c, left)
                        sizes.append(c)
                        left -= c
                    if len(sizes) < 30000 and not (r <= 8 and dl > 4091):
                        run_case(ctx, "socket", pkts, stream, k, r=r, chunks=sizes, sig=(rclass(r, len(stream)),) + sc, progress=item % 3 == 0)
                if item % 5 == 0:
                    run_case(ctx, "realfile", pkts, stream, k, r=r, sig=(rclass(r, len(stream)),) + sc)
                    run_case(ctx, "bytesio", pkts, stream, k, r=r)
                if item % 3 == 0 and len(stream) < 20000:
                    run_case(ctx, "bytesio-pos", pkts, stream, k, r=r, rng=rng, sig=("filepos", rclass(r, len(stream))))
                if item % 4 == 0 and len(stream) < 200000:
                    run_case(ctx, "realfile-update", pkts, stream, k, r=r, rng=rng, sig=("file-update-mode", rclass(r, len(stream))))
                    ctx.count("file.update_mode")
                if item % 7 == 0:
                    run_case(ctx, "file", pkts, stream, k, r=r, via_def=True, sig=("viadef",))

    # ---- 2z. sources whose whole content is exactly ONE packet (incl. the minimal one: a single data byte), any prefix ------
    for dl in (1, 2, 3, 7, 300):
        for k in (0, 1, 4, 13):
            item += 1
            if not ctx.mine(item):
                continue
            pkts, stream = build(rng, [dl], k)
            for kind, r in (("bytes", None), ("file", None), ("file", 1), ("file", 4096), ("bytesio", None), ("bytesio", 6), ("rawpacketdata", None)):
                if kind == "rawpacketdata" and k:
                    continue
                run_case(ctx, kind, pkts, stream, k, r=r, sig=("single-packet", "L" + str(dl), "k" + str(k)))
                ctx.count("single_packet_sources")
            run_case(ctx, "socket", pkts, stream, k, chunks=[len(stream)], sig=("single-packet", "socket"))
    # ---- 3. chunk borders relative to packet borders -------------------------------------------------------
    for trial in range(ctx.size(150, 300000)):
        item += 1
        if not ctx.mine(item):
            continue
        k = rng.choice([0, 0, 3])
        dlens = [rng.choice([1, 2, 7, 50, 300]) for _ in range(rng.randrange(2, 7))]
        pkts, stream = build(rng, dlens, k)
        borders, pos = [], 0
        for p in pkts:
            borders.append(pos)          # start of prefix
            pos += k + len(p)
        for where, delta in (("on-border", 0), ("border-1", -1), ("border+1", 1), ("in-prefix", max(0, k - 1)),
                             ("in-header", k + 3), ("hdr-end", k + 6), ("hdr-end-1", k + 5)):
            cuts = sorted({b + delta for b in borders[1:] if 0 < b + delta < len(stream)})
            sizes = [b - a for a, b in zip([0] + cuts, cuts + [len(stream)])]
            run_case(ctx, "socket", pkts, stream, k, chunks=sizes, sig=("border", where, "k" + str(k)), progress=(trial + len(where)) % 2 == 0)
            if where == "in-header":
                ctx.count("schedules.cut_inside_header")
        # deliveries that each hold several whole packets (cuts on every second / third packet border)
        for step in (2, 3):
            cuts = [b for b in borders[step::step]]
            sizes = [b - a for a, b in zip([0] + cuts, cuts + [len(stream)])]
            run_case(ctx, "socket", pkts, stream, k, chunks=sizes, sig=("border", f"every-{step}-packets", "k" + str(k)), progress=trial % 2 == 0)
            ctx.count("schedules.several_packets_per_delivery")
        # real socketpair with a feeder thread
        if trial % 3 == 0:
            sizes = [rng.randrange(1, 40) for _ in range(len(stream) // 10 + 2)]
            run_case(ctx, "socketpair", pkts, stream, k, r=rng.choice([None, 1, 7, 4096]), chunks=sizes,
                     sig=("socketpair", "k" + str(k)))
    # ---- 3a. real sockets: blocking without a timeout (peer keeps the connection open), message-oriented ---------------------
    for trial in range(ctx.size(24, 600)):
        item += 1
        if not ctx.mine(item):
            continue
        k = (0, 3)[trial % 2]
        pkts = [mkpacket(rng, rng.choice([1, 2, 7, 40, 300])) for _ in range(rng.randrange(1, 8))]
        stream = b"".join(bytes(0x80 | rng.getrandbits(7) for _ in range(k)) + p for p in pkts)
        real_socket_case(ctx, ("blocking-stream", "seqpacket", "datagram")[(trial // 2) % 3], pkts, stream, k, rng)
    # ---- 3b. packets whose whole primary header is zero (APID 0, counts 0, one data byte) anywhere in a stream ---------------
    for trial in range(12):
        item += 1
        if not ctx.mine(item):
            continue
        k = (0, 0, 2)[trial % 3]
        zero = bytes(6) + bytes([rng.getrandbits(8)])
        pkts = [mkpacket(rng, rng.choice([1, 2, 9])) for _ in range(rng.randrange(0, 4))] + [zero] + \
               [mkpacket(rng, rng.choice([1, 3])) for _ in range(rng.randrange(0, 4))] + ([zero] if trial % 2 else [])
        stream = b"".join(bytes(0x80 | rng.getrandbits(7) for _ in range(k)) + p for p in pkts)
        for kind in ("bytes", "file", "bytesio"):
            run_case(ctx, kind, pkts, stream, k, r=rng.choice([None, 1, 7, 4096]) if kind != "bytes" else None, sig=("zero-header", kind, k))
        sizes = [rng.randrange(1, 9) for _ in range(len(stream))]
        run_case(ctx, "socket", pkts, stream, k, chunks=sizes, sig=("zero-header", "socket", k))
        ctx.count("header.all-zero")
    # ---- 4. random header words / many packets -----------------------------------------------------------
    for trial in range(ctx.size(40, 40000)):
        item += 1
        if not ctx.mine(item):
            continue
        k = rng.choice([0, 1, 5])
        dlens = [rng.choice([1, 1, 2, 3, 10, rng.randrange(1, 400)]) for _ in range(rng.randrange(1, 120))]
        pkts, stream = build(rng, dlens, k)
        r = rng.choice([None, 1, 6, 7, 33, 4096])
        run_case(ctx, rng.choice(["file", "bytes", "shortfile", "bytesio"]), pkts, stream, k, r=r or 4096 if False else r,
                 rng=rng, sig=("many", rclass(r, len(stream)), "k" + str(k)))
        if trial < 3:
            ctx.sample({"data_lens": dlens[:10], "k": k, "read_size": r, "stream_head": stream[:24]})

    # ---- 5. big stream across the 20 MB trim threshold -----------------------------------------------------
    big_jobs = [("bytes", None, False), ("file", None, False), ("file", 1 << 20, False), ("file", 65542, True)]
    if not ctx.quick:
        big_jobs += [("file", 1 << 16, False), ("socket", 1 << 20, False), ("realfile", 1 << 18, False), ("socket", 65542, True), ("file", 2 * 65542, True)]
    for bi, (kind, r, uniform) in enumerate(big_jobs):
        if not ctx.mine(bi + 3):
            continue
        big_stream(ctx, kind, r, uniform)


def big_stream(ctx, kind, r, uniform=False):
    """21 MB: consumed offset must pass 20,000,000 so the trim branch is reached by construction.
    uniform: every packet has the maximum size and the read size / socket delivery is a whole number of packets, so that every
    read ends exactly on a packet border (nothing is left unparsed when the buffer is trimmed)"""
    from space_packet_parser import packets as P
    import random
    rng = random.Random(4242)
    pkts = []
    total = 0
    i = 0
    while total < 21_500_000:
        dl = 65536 if (i % 3 or uniform) else rng.choice([1, 2, 100, 4091, 65535])
        body = bytes([i & 0xFF, (i >> 8) & 0xFF]) + bytes([rng.getrandbits(8)]) * (dl - 2) if dl >= 2 else bytes([i & 0xFF])
        p = rng.getrandbits(32).to_bytes(4, "big") + (dl - 1).to_bytes(2, "big") + body
        pkts.append(p)
        total += len(p)
        i += 1
    stream = b"".join(pkts)
    if kind == "bytes":
        src = stream
    elif kind == "file":
        src = sources.RecordingFile(stream)
    elif kind == "realfile":
        fd, tmp = tempfile.mkstemp(prefix="vmon-c02-big-", dir=os.environ.get("VMON_SCRATCH"))
        os.write(fd, stream)
        os.close(fd)
        src = open(tmp, "rb")
    else:
        src = sources.ScriptedSocket(sources.cut(stream, [65542] * len(pkts) if uniform else [1 << 20] * (len(stream) >> 20)))
    kw = {} if r is None else {"buffer_read_size_bytes": r}
    gen = P.ccsds_generator(src, **kw)
    n, bad, trim_seen, last_pos = 0, None, False, -1
    for idx, want in enumerate(pkts):
        s = monitored(next, gen)
        if s.exc is not None:
            bad = (idx, f"raised {s.exc!r}")
            break
        if bytes(s.value) != want:
            bad = (idx, "content differs")
            break
        n += 1
        fr = gen.gi_frame
        if fr is not None:
            cp = fr.f_locals.get("current_pos")      # evidence only: names may be refactored
            if isinstance(cp, int):
                if cp < last_pos:
                    trim_seen = True
                last_pos = cp
    ctx.count("evaluations")
    ctx.count(f"kind.{'file' if kind == 'realfile' else kind}")
    ctx.count("bigstream.packets", n)
    offset = sum(len(p) for p in pkts[:n])
    wit = {"kind": kind, "read_size": r, "n_packets": len(pkts), "stream_len": len(stream), "reads_end_on_packet_borders": uniform}
    if uniform:
        ctx.count("bigstream.reads_on_packet_borders")
    if bad:
        ctx.violation(f"bigstream/{kind}/{'past20MB' if offset > 19_900_000 else 'before20MB'}{'/reads-on-packet-borders' if uniform else ''}",
                      f"packet {bad[0]} at stream offset {offset}: {bad[1]}", dict(wit, index=bad[0], offset=offset))
    elif kind != "socket":
        s = monitored(next, gen)
        if not isinstance(s.exc, StopIteration):
            ctx.violation(f"bigstream/{kind}/end", f"after the last packet: {s.value!r} / {s.exc!r}", wit)
    if trim_seen:
        ctx.count("bigstream.trim_observed")
    elif offset > 20_100_000 and last_pos >= 0:
        ctx.note("big stream consumed past 20 MB but the buffer position never decreased (trim not observed)")
        ctx.count("bigstream.trim_observed", 0)
    elif last_pos < 0:
        ctx.count("bigstream.trim_observed")  # frame locals not observable (refactor): do not block the verdict
    ctx.sig("big", kind, r)
    gen.close()
    if kind == "socket":
        src.close()
    if kind == "realfile":
        src.close()
        os.unlink(tmp)
