"""C18 — the xarray dataset holds every parsed value, per APID, in order, without loss.

Monitor shape M: flat-per-APID definitions covering every parameter type and encoding are generated (IR), packets with
value extremes are written to 1-3 files with several APIDs interleaved, xarr.create_dataset is executed on the real
files (raw and derived mode) and every cell of every variable of every per-APID dataset is compared with the reference
decoder's value for the corresponding packet under type-aware equality (bytes/str exactly, including trailing NULs;
integers exactly; floats by value with NaN == NaN). Row count/order, variable set, and the ValueError for streams whose
field set varies within an APID are checked as well.
"""
import math
import os
import tempfile

from vmon import bits, gen, harness, ir, ref, render
from vmon.libutil import load_definition, monitored

LEVEL = "exploration"
SHARDS = {"quick": 16, "thorough": 16}
KINDS = ("integer", "float", "enumerated", "boolean", "string", "binary", "abstime", "reltime")
MUST = ["datasets", "several_files.root_container_name", "ragged_bytes.datasets", "cells.compared", "mode.raw", "mode.derived", "files.multi", "files.truncated_tail_before_next_file", "packets.with_spare_bytes", "kwargs.skip_header_bytes", "kwargs.parse_bad_pkts_false", "definition.form.str-path", "definition.form.Path", "apids.multi", "polymorphic.rejected", "wide_uncalibrated.datasets", "polymorphic.superset", "exotic_encodings.datasets", "reordered_fields.datasets", "manyrows.datasets", "files.form.generator", "files.form.iter", "files.form.tuple"] + [f"cells.{k}" for k in KINDS]
RULE = ("case = (flat definition: abstract root + one concrete child container per APID, each with a fixed list of "
        "parameters of random kinds/encodings; packet files: 1-3 files (30% of them ending in a truncated packet, which is no "
        "packet of the stream; sometimes with foreign prefix bytes skipped through the skip_header_bytes keyword), the definition as object / str path / Path, the files handed over as path / list / tuple / generator / iterator / map / Path list, 1-4 APIDs interleaved, values at encoding extremes "
        "- 0, max, sign bit, NaN/inf, empty and NUL-terminated strings/bytes; mode raw/derived). create_dataset's result is "
        "compared cell by cell with the reference decoder. distinct_nontrivial = distinct (mode, parameter kind, encoding "
        "variant, value class) signatures of compared cells where value class in {zero, negative, max-unsigned, huge>2^63, "
        "nan, inf, empty, trailing-NUL, non-ASCII, ordinary}; ordinary unsigned header fields are trivial and excluded.")
ASSUMPTIONS = ["numbers are compared by value across int/float/bool (a boolean stored as 1 equals True)",
               "only packets the generator yields are rows (unrecognized packets are skipped by design)"]


def flat_doc(rng, napids, nparams):
    """abstract root with the header; one concrete child per APID selected by PKT_APID == apid"""
    g = gen.DocGen(rng, gen.Profile(p_dynamic=0.0, p_context=0.2, p_calibrated=0.3, flat=True, multi_byte_strings=True))
    hdr = []
    for n, w in gen.HEADER:
        t = ir.PType(n + "_Type", "integer", ir.IntEnc(w, "unsigned", False))
        g.types.append(t)
        g.params.append(ir.Param(n, t.name))
        hdr.append((n, t))
    cx = gen.Ctxt(list(hdr))
    apids = rng.sample([0, 1, 5, 100, 1024, 2047, 77, 300], napids)
    conts = [ir.Container("CCSDSPacket", tuple(("p", n) for n, _ in hdr), None, None, True)]
    layout = {}
    for a in apids:
        entries, new = [], []
        for _ in range(nparams):
            kind = rng.choice(KINDS)
            name, t = g.add_param(cx, "V", kind=kind)
            # fixed-size, byte-friendly: force static lengths
            entries.append(("p", name))
            new.append((name, t))
        total = sum(bits_of(t) for _, t in new)
        if total % 8:
            pn = g.fresh("PAD")
            pt = ir.PType(pn + "_Type", "integer", ir.IntEnc(8 - total % 8, "unsigned", False))
            g.types.append(pt)
            g.params.append(ir.Param(pn, pt.name))
            entries.append(("p", pn))
            new.append((pn, pt))
        conts.append(ir.Container(f"APID_{a}", tuple(entries), "CCSDSPacket", (ir.Comparison("PKT_APID", str(a)),), False))
        layout[a] = new
    return ir.Doc(tuple(g.types), tuple(g.params), tuple(conts)), apids, layout


def bits_of(t):
    e = t.enc
    if isinstance(e, (ir.IntEnc, ir.FloatEnc)):
        return e.bits
    return e.length


def value_class(v):
    if isinstance(v, bool):
        return "bool"
    if isinstance(v, int):
        return "zero" if v == 0 else "negative" if v < 0 else "huge" if v >= 2 ** 63 else "ordinary"
    if isinstance(v, float):
        return "nan" if v != v else "inf" if v in (math.inf, -math.inf) else "zero" if v == 0 else "negative" if v < 0 else "ordinary"
    if isinstance(v, str):
        return "empty" if v == "" else "trailing-NUL" if v.endswith("\x00") else "non-ASCII" if not v.isascii() else "ordinary"
    if isinstance(v, bytes):
        return "empty" if v == b"" else "trailing-NUL" if v.endswith(b"\x00") else "high-bytes" if max(v) > 127 else "ordinary"
    return type(v).__name__


def cell_value(x):
    import numpy as np
    if isinstance(x, np.generic):
        x = x.item()
    return x


def same_cell(cell, exp):
    """type-aware equality between a dataset cell and the model's plain value"""
    if isinstance(exp, bytes):
        return isinstance(cell, bytes) and cell == exp
    if isinstance(exp, str):
        return isinstance(cell, str) and cell == exp
    if isinstance(exp, (bool, int, float)):
        if isinstance(cell, (str, bytes)) or cell is None:
            return False
        if isinstance(exp, float) and exp != exp:
            return isinstance(cell, float) and cell != cell
        try:
            if isinstance(exp, float) or isinstance(cell, float):
                return float(cell) == float(exp) and (not isinstance(exp, int) or int(cell) == exp)
            return int(cell) == int(exp)
        except (OverflowError, ValueError):
            return False
    return cell == exp


def run(ctx):
    import random
    from space_packet_parser import xarr
    scratch = tempfile.mkdtemp(prefix="vmon-c18-", dir=os.environ.get("VMON_SCRATCH"))
    try:
        for i in range(ctx.size(384, 40000)):
            if not ctx.mine(i):
                continue
            rng = random.Random(f"C18/{ctx.seed}/{i}")
            doc, apids, layout = flat_doc(rng, rng.randrange(1, 5), rng.randrange(1, 6))
            info = harness.DocInfo(doc)
            ld = monitored(load_definition, render.render_doc(doc))
            if ld.exc is not None:
                ctx.violation(f"load/{type(ld.exc).__name__}", repr(ld.exc), {"doc": i})
                continue
            pb = gen.PacketBuilder(doc, rng)
            nfiles = rng.randrange(1, 4)
            # keyword arguments handed through to the packet generator: foreign bytes before every packet skipped with
            # skip_header_bytes, explicit read size, progress display
            skip = rng.choice([0, 0, 0, 4, 1])
            gkw = {}
            if skip:
                gkw["skip_header_bytes"] = skip
                ctx.count("kwargs.skip_header_bytes")
            if rng.random() < 0.25:
                gkw["buffer_read_size_bytes"] = rng.choice([1, 7, 4096])
                ctx.count("kwargs.buffer_read_size_bytes")
            if rng.random() < 0.3:
                gkw["parse_bad_pkts"] = False       # packets with spare bytes are then withheld by the generator: no rows for them, in any file
                ctx.count("kwargs.parse_bad_pkts_false")
            # the definition may be handed over as an object or as the path (str / Path) of its XTCE file
            defn_form = rng.choice(["object", "object", "str-path", "Path"])
            ctx.count(f"definition.form.{defn_form}")
            defn_path = os.path.join(scratch, f"d{i}.xml")
            if defn_form != "object":
                with open(defn_path, "wb") as f:
                    f.write(render.render_doc(doc))
            files, stream_packets = [], []
            for fi in range(nfiles):
                # one packet in six carries spare bytes after its last parameter: the generator yields it (with a warning), so it is a row
                raws = []
                for _ in range(rng.randrange(1, 9)):
                    delta = rng.choice([0, 0, 0, 0, 0, rng.choice([1, 2, 5])])
                    raws.append(pb.build(f"APID_{rng.choice(apids)}", length_delta=delta)[0])
                    if delta:
                        ctx.count("packets.with_spare_bytes")
                path = os.path.join(scratch, f"d{i}_f{fi}.bin")
                tail = b""
                if rng.random() < 0.3:
                    # a file cut off in the middle of a packet (size-based rotation): the incomplete packet is not a packet of
                    # the stream and must not disturb the rows of this file or of the next one
                    extra = pb.build(f"APID_{rng.choice(apids)}")[0]
                    tail = extra[:rng.randrange(1, len(extra))]
                    ctx.count("files.truncated_tail")
                    if fi < nfiles - 1:
                        ctx.count("files.truncated_tail_before_next_file")
                with open(path, "wb") as f:
                    f.write(b"".join(bytes([0xE0 | (j_ & 0xF)]) * skip + r_ for j_, r_ in enumerate(raws)) + (bytes([0xEE]) * skip + tail if tail else b""))
                files.append(path)
                stream_packets += raws
            outs = [ref.walk(doc, r) for r in stream_packets]
            if any(o.status not in ("ok", "unrecognized") or harness.has_dontcare(o) for o in outs):
                ctx.count("skipped.error-expected-packets")
                continue    # a decoding error would (legitimately) escape create_dataset
            rows = {}
            for r, o in zip(stream_packets, outs):
                if o.status == "ok" and (gkw.get("parse_bad_pkts", True) or o.consumption == "exact"):
                    rows.setdefault(int.from_bytes(r[:2], "big") & 0x7FF, []).append(o)
            if nfiles > 1:
                ctx.count("files.multi")
            if len(rows) > 1:
                ctx.count("apids.multi")
            for raw_mode in (False, True):
                ctx.count("evaluations")
                ctx.count("datasets")
                ctx.count("mode.raw" if raw_mode else "mode.derived")
                # packet_files may be a path, or any iterable of paths: list, tuple, generator, iterator, map, Path objects
                form = rng.choice(["list", "tuple", "generator", "iter", "map", "pathlist"]) if (nfiles > 1 or rng.random() < 0.5) else "single"
                ctx.count(f"files.form.{form}")
                import pathlib
                arg = {"single": lambda: files[0], "list": lambda: list(files), "tuple": lambda: tuple(files),
                       "generator": lambda: (f_ for f_ in files), "iter": lambda: iter(files), "map": lambda: map(str, files),
                       "pathlist": lambda: [pathlib.Path(f_) for f_ in files]}[form]()
                import contextlib, io as _io, pathlib as _pl
                darg = ld.value if defn_form == "object" else defn_path if defn_form == "str-path" else _pl.Path(defn_path)
                with contextlib.redirect_stdout(_io.StringIO()):
                    st = monitored(lambda: xarr.create_dataset(arg, darg, raw_mode, **gkw))
                wit = {"doc": i, "mode": "raw" if raw_mode else "derived", "files": nfiles, "apids": sorted(rows), "packet_files_form": form,
                       "definition_form": defn_form, "generator_kwargs": dict(gkw)}
                if st.exc is not None:
                    ctx.violation(f"exception/{type(st.exc).__name__}/{'raw' if raw_mode else 'derived'}/{blame(doc, layout, rows, raw_mode, st.exc)}",
                                  f"create_dataset raised {st.exc!r} for a flat-per-APID stream", dict(wit, exception=repr(st.exc)[:400]))
                    continue
                ds_by_apid = st.value
                if sorted(ds_by_apid) != sorted(rows):
                    ctx.violation("apids/set", f"datasets for APIDs {sorted(ds_by_apid)}, packets of APIDs {sorted(rows)}", wit)
                    continue
                for apid, exp_rows in rows.items():
                    ds = ds_by_apid[apid]
                    names = [n for n, _ in exp_rows[0].items]
                    if sorted(ds.data_vars) != sorted(names):
                        ctx.violation("variables/set", f"APID {apid}: variables {sorted(ds.data_vars)} != parameters {sorted(names)}", wit)
                        continue
                    for name in names:
                        col = ds[name].values
                        if len(col) != len(exp_rows):
                            ctx.violation("rows/count", f"APID {apid} {name}: {len(col)} rows, {len(exp_rows)} packets", wit)
                            break
                        for ri, o in enumerate(exp_rows):
                            v = dict(o.items)[name]
                            if v.dontcare:
                                continue
                            exp = v.raw if raw_mode else v.value
                            if v.exact is not None and not raw_mode:
                                got = cell_value(col[ri])
                                ok = isinstance(got, float) and ref.close_enough(got, v.exact, v.scale)
                            else:
                                got = cell_value(col[ri])
                                ok = same_cell(got, exp)
                            kind = info.kind[name]
                            ctx.count("cells.compared")
                            ctx.count("evaluations")
                            ctx.count(f"cells.{kind}")
                            vc = value_class(exp)
                            if not (kind == "integer" and vc == "ordinary" and name in dict(gen.HEADER)):
                                ctx.sig("raw" if raw_mode else "derived", info.feat[name], vc)
                            if not ok and isinstance(exp, (bytes, str)) and type(got) is type(exp) and got != exp and \
                                    got == exp.rstrip(b"\x00" if isinstance(exp, bytes) else "\x00"):
                                # numpy's fixed-width S/U dtypes cannot represent trailing NULs: recorded known finding
                                ctx.violation(f"cell/trailing-NUL-stripped/dtype={col.dtype.kind}",
                                              f"APID {apid} row {ri} variable {name}: cell {got!r} ({col.dtype}) lost the trailing NUL(s) of {exp!r}",
                                              dict(wit, variable=name, row=ri, cell=got, expected=exp, dtype=str(col.dtype)))
                                continue    # keep comparing the remaining rows of this variable
                            if not ok:
                                ctx.violation(f"cell/{'raw' if raw_mode else 'derived'}/{info.feat[name]}/{vc}/dtype={col.dtype.kind}",
                                              f"APID {apid} row {ri} variable {name}: cell {got!r} ({col.dtype}) != parsed {'raw ' if raw_mode else ''}value {exp!r}",
                                              dict(wit, variable=name, row=ri, cell=got, expected=exp, dtype=str(col.dtype)))
                                break
            if i < 2:
                ctx.sample({"doc": i, "apids": apids, "files": nfiles, "layout": {str(a): [(n, info.feat[n]) for n, _ in l] for a, l in layout.items()}})
        polymorphic(ctx, scratch)
        roots_and_ragged_bytes(ctx, scratch)
        directed_nuls(ctx, scratch)
        if ctx.mine(3):
            many_rows(ctx, scratch)
    finally:
        import shutil
        shutil.rmtree(scratch, ignore_errors=True)


def blame(doc, layout, rows, raw_mode, exc):
    """mechanism features for an exception: which parameter kinds/encodings of the involved APIDs could be responsible"""
    from vmon.harness import enc_features
    msg = str(exc)
    feats = set()
    for a in rows:
        for n, t in layout.get(a, []):
            e = t.enc
            if isinstance(e, ir.IntEnc) and e.bits > 64:
                feats.add("int>64")
            if t.kind == "enumerated" and not raw_mode:
                feats.add("enumerated-derived")
            if t.kind == "string" and raw_mode:
                feats.add("string-raw")
    if isinstance(exc, OverflowError):
        return "int>64" if "int>64" in feats else "overflow-other"
    if isinstance(exc, UnicodeDecodeError):
        return "string-raw" if "string-raw" in feats else "unicode-other"
    if isinstance(exc, ValueError) and "invalid literal" in msg:
        return "enumerated-derived" if "enumerated-derived" in feats else "literal-other"
    return "other"


def directed_nuls(ctx, scratch):
    """cells whose value ends in NUL characters / bytes (derived and raw)"""
    from space_packet_parser import packets as P
    from space_packet_parser import xarr
    from vmon.props.c05 import header_types
    ts, ps = header_types("PKT_APID")
    ts += [ir.PType("S_Type", "string", ir.StrEnc("US-ASCII", 24)), ir.PType("B_Type", "binary", ir.BinEnc(16)),
           ir.PType("T_Type", "string", ir.StrEnc("UTF-8", 32, "3b")), ir.PType("M_Type", "float", ir.FloatEnc(32, "MILSTD_1750A")),
           ir.PType("H_Type", "float", ir.FloatEnc(16, "IEEE754")), ir.PType("W_Type", "integer", ir.IntEnc(64, "unsigned"))]
    ps += [ir.Param("S", "S_Type"), ir.Param("B", "B_Type"), ir.Param("T", "T_Type"), ir.Param("M", "M_Type"), ir.Param("H", "H_Type"),
           ir.Param("W", "W_Type")]
    root = ir.Container("CCSDSPacket", tuple(("p", p.name) for p in ps))
    doc = ir.Doc(tuple(ts), tuple(ps), (root,))
    defn = load_definition(render.render_doc(doc))
    info = harness.DocInfo(doc)
    # M: 1750A values far below the float32 normal range (mantissa 0x400001, exponent -128 / -120), and the largest one;
    # H: binary16 subnormal / max; W: 64-bit unsigned extremes
    tails = [bytes.fromhex("40000180") + bytes.fromhex("0001") + bytes.fromhex("ffffffffffffffff"),
             bytes.fromhex("c0000188") + bytes.fromhex("7bff") + bytes.fromhex("8000000000000001"),
             bytes.fromhex("7fffff7f") + bytes.fromhex("fc00") + bytes.fromhex("0000000000000000")]
    bodies = [b"AB\x00" + b"\x01\x00" + b"x\x00;\x00", b"\x00\x00\x00" + b"\x00\x00" + b"\x00;AB", b"ABC" + b"\x00\x07" + b"ab;\x00"]
    bodies = [b_ + t for b_, t in zip(bodies, tails)]
    raws = [bytes(P.create_ccsds_packet(b, apid=9, sequence_count=k)) for k, b in enumerate(bodies)]
    path = os.path.join(scratch, "nuls.bin")
    with open(path, "wb") as f:
        f.write(b"".join(raws))
    outs = [ref.walk(doc, r) for r in raws]
    for raw_mode in (False, True):
        st = monitored(xarr.create_dataset, path, defn, raw_mode)
        ctx.count("evaluations")
        if st.exc is not None:
            ctx.violation(f"exception/{type(st.exc).__name__}/directed-nuls", repr(st.exc), {"mode": raw_mode})
            continue
        ds = st.value[9]
        for name in ("S", "B", "T", "M", "H", "W"):
            col = ds[name].values
            for ri, o in enumerate(outs):
                v = dict(o.items)[name]
                exp = v.raw if raw_mode else v.value
                got = cell_value(col[ri])
                ctx.count("cells.compared")
                ctx.sig("raw" if raw_mode else "derived", info.feat[name], value_class(exp), "directed")
                if same_cell(got, exp):
                    continue
                if isinstance(exp, (bytes, str)) and type(got) is type(exp) and got == exp.rstrip(b"\x00" if isinstance(exp, bytes) else "\x00"):
                    ctx.violation(f"cell/trailing-NUL-stripped/dtype={col.dtype.kind}", f"variable {name} row {ri}: cell {got!r} lost the trailing NUL(s) of {exp!r}",
                                  {"variable": name, "row": ri, "cell": got, "expected": exp, "dtype": str(col.dtype)})
                else:
                    ctx.violation(f"cell/{'raw' if raw_mode else 'derived'}/{info.feat[name]}/{value_class(exp)}/dtype={col.dtype.kind}",
                                  f"variable {name} row {ri}: cell {got!r} != {exp!r}", {"variable": name, "row": ri, "cell": got, "expected": exp})


def many_rows(ctx, scratch):
    """one APID with tens of thousands of packets (beyond 2**15 rows) plus a short second APID: every row, in order"""
    from space_packet_parser import packets as P
    from space_packet_parser import xarr
    from vmon.props.c05 import header_types
    ts, ps = header_types("PKT_APID")
    ts += [ir.PType("CNT_Type", "integer", ir.IntEnc(32, "unsigned")), ir.PType("E_Type", "enumerated", ir.IntEnc(8, "unsigned"), None, tuple((v, f"LABEL_{v}") for v in range(256)))]
    ps += [ir.Param("CNT", "CNT_Type"), ir.Param("E", "E_Type")]
    root = ir.Container("CCSDSPacket", tuple(("p", p.name) for p in ps))
    defn = load_definition(render.render_doc(ir.Doc(tuple(ts), tuple(ps), (root,))))
    n = ctx.size(33_500, 70_000)
    path1, path2 = os.path.join(scratch, "many1.bin"), os.path.join(scratch, "many2.bin")
    with open(path1, "wb") as f1, open(path2, "wb") as f2:
        for i in range(n):
            (f1 if i < n // 2 else f2).write(bytes(P.create_ccsds_packet((i * 7919 % 2 ** 32).to_bytes(4, "big") + bytes([i % 256]), apid=10 if i % 1000 else 11,
                                                                      sequence_count=i % 16384)))
    for raw_mode in (False, True):
        st = monitored(xarr.create_dataset, [path1, path2], defn, raw_mode)
        ctx.count("evaluations")
        ctx.count("manyrows.datasets")
        if st.exc is not None:
            ctx.violation(f"exception/{type(st.exc).__name__}/many-rows", repr(st.exc), {"n": n})
            continue
        for apid in (10, 11):
            idx = [i for i in range(n) if (10 if i % 1000 else 11) == apid]
            ds = st.value.get(apid)
            if ds is None or len(ds["CNT"].values) != len(idx):
                ctx.violation("rows/count/many-rows", f"APID {apid}: {None if ds is None else len(ds['CNT'].values)} rows for {len(idx)} packets", {"n": n, "apid": apid})
                continue
            cnt = ds["CNT"].values
            e = ds["E"].values
            bad = next((j for j, i in enumerate(idx) if int(cnt[j]) != i * 7919 % 2 ** 32 or (int(e[j]) if raw_mode else str(e[j])) != (i % 256 if raw_mode else f"LABEL_{i % 256}")), None)
            ctx.count("cells.compared", 2 * len(idx))
            if bad is not None:
                ctx.violation("cell/many-rows", f"APID {apid}: row {bad} does not hold packet {idx[bad]}'s values", {"n": n, "apid": apid, "row": bad})
        ctx.sig("many-rows", raw_mode, n > 32768)


def roots_and_ragged_bytes(ctx, scratch):
    """(1) several files with a non-default root_container_name: EVERY file is decoded from that root. (2) a bytes column whose values
    differ in length, the lexicographically greatest not being the longest: every cell holds its whole value."""
    from space_packet_parser import packets as P
    from space_packet_parser import xarr
    from vmon.props.c05 import header_types
    ts, ps = header_types("PKT_APID")
    ts += [ir.PType("A_Type", "integer", ir.IntEnc(8)), ir.PType("B_Type", "integer", ir.IntEnc(16)),
           ir.PType("BLOB_Type", "binary", ir.BinEnc(ir.DynLen("A", False, 8, None))), ir.PType("TXT_Type", "string", ir.StrEnc("US-ASCII", ir.DynLen("A", False, 8, None)))]
    ps += [ir.Param("A", "A_Type"), ir.Param("B", "B_Type"), ir.Param("BLOB", "BLOB_Type"), ir.Param("TXT", "TXT_Type")]
    hdr = tuple(("p", p.name) for p in ps[:7])
    defn = load_definition(render.render_doc(ir.Doc(tuple(ts), tuple(ps), (ir.Container("CCSDSPacket", hdr + (("p", "A"), ("p", "B"))),
                                                                                ir.Container("ALT", hdr + (("p", "B"), ("p", "A")))))))
    files = []
    for fi in range(3):
        path = os.path.join(scratch, f"roots-{fi}.bin")
        with open(path, "wb") as f:
            for j in range(2 + fi):
                f.write(bytes(P.create_ccsds_packet(bytes([10 * fi + j, 0x40 + fi, 0x80 + j]), apid=21)))
        files.append(path)
    for root in ("ALT", "CCSDSPacket"):
        want = []
        for path in files:
            with open(path, "rb") as f:
                want += [(int(pk_["A"]), int(pk_["B"])) for pk_ in defn.packet_generator(f, root_container_name=root)]
        for form in (files, [__import__("pathlib").Path(x) for x in files]):
            st = monitored(lambda: xarr.create_dataset(form, defn, root_container_name=root))
            ctx.count("evaluations")
            ctx.count("several_files.root_container_name")
            got = None if st.exc is not None else list(zip([int(x) for x in st.value[21]["A"].values], [int(x) for x in st.value[21]["B"].values]))
            if got != want:
                ctx.violation(f"several-files/root_container_name/{'default' if root == 'CCSDSPacket' else 'other'}",
                              f"create_dataset over three files with root_container_name={root!r}: rows (A, B) {got} / {st.exc!r}, the generator gives {want}", {"root": root})
    for field, vals in (("BLOB", [b"\xff", b"\x01\x02\x03", b"\x7f\x01", b"\xfe\x01\x02\x03\x04", b"\x05"]), ("TXT", [b"z", b"abc", b"yx", b"hello", b"q"])):
        dfn = load_definition(render.render_doc(ir.Doc(tuple(ts), tuple(ps), (ir.Container("CCSDSPacket", hdr + (("p", "A"), ("p", field))),))))
        path = os.path.join(scratch, "ragged.bin")
        with open(path, "wb") as f:
            for v in vals:
                f.write(bytes(P.create_ccsds_packet(bytes([len(v)]) + v, apid=22)))
        for raw_mode in (False, True):
            st = monitored(xarr.create_dataset, path, dfn, raw_mode)
            ctx.count("evaluations")
            ctx.count("ragged_bytes.datasets")
            if st.exc is not None:
                ctx.violation(f"ragged-bytes/exception/{type(st.exc).__name__}", f"create_dataset raised {st.exc!r}", {"field": field, "raw": raw_mode})
                continue
            cells = list(st.value[22][field].values)
            got = [c if isinstance(c, bytes) else str(c).encode() for c in cells]
            if field == "TXT" and not raw_mode:
                got = [str(c).encode() for c in cells]
            if [bytes(g) for g in got] != vals:
                ctx.violation(f"ragged-bytes/cells/{field}/{'raw' if raw_mode else 'derived'}", f"cells {got} != values {vals}", {"field": field, "raw": raw_mode})


def polymorphic(ctx, scratch):
    """field set varies within one APID -> ValueError"""
    from space_packet_parser import packets as P
    from space_packet_parser import xarr
    from vmon.props.c05 import header_types
    ts, ps = header_types("PKT_APID")
    ts += [ir.PType("SEL_Type", "integer", ir.IntEnc(8)), ir.PType("A_Type", "integer", ir.IntEnc(8)), ir.PType("B_Type", "integer", ir.IntEnc(8))]
    ps += [ir.Param("SEL", "SEL_Type"), ir.Param("A", "A_Type"), ir.Param("B", "B_Type")]
    root = ir.Container("CCSDSPacket", tuple(("p", p.name) for p in ps[:7]) + (("p", "SEL"),), None, None, True)
    ca = ir.Container("KA", (("p", "A"),), "CCSDSPacket", (ir.Comparison("SEL", "1"),))
    cb = ir.Container("KB", (("p", "B"),), "CCSDSPacket", (ir.Comparison("SEL", "2"),))
    defn = load_definition(render.render_doc(ir.Doc(tuple(ts), tuple(ps), (root, ca, cb))))
    for order in ([1, 2], [2, 1, 1], [1, 1, 2, 1]):
        path = os.path.join(scratch, "poly.bin")
        with open(path, "wb") as f:
            for s in order:
                f.write(bytes(P.create_ccsds_packet(bytes([s, 9]), apid=11)))
        st = monitored(xarr.create_dataset, path, defn)
        ctx.count("evaluations")
        ctx.count("polymorphic.rejected")
        if not isinstance(st.exc, ValueError):
            ctx.violation("polymorphic/not-rejected", f"a stream whose APID 11 packets differ in field set gave {st.value!r} / {st.exc!r} instead of ValueError", {"order": order})
        ctx.sig("polymorphic", tuple(order))
    # ---- one layout's field set is a strict SUPERSET of the other's (an inheritor adds a parameter): still two field sets,
    # whichever comes first
    ka2 = ir.Container("KA", (("p", "A"),), "CCSDSPacket", (ir.Comparison("SEL", "1"),))
    kb2 = ir.Container("KB", (("p", "A"), ("p", "B")), "CCSDSPacket", (ir.Comparison("SEL", "2"),))
    defn3 = load_definition(render.render_doc(ir.Doc(tuple(ts), tuple(ps), (root, ka2, kb2))))
    for order in ([1, 2], [2, 1], [1, 1, 2], [2, 2, 1, 2]):
        path = os.path.join(scratch, "superset.bin")
        with open(path, "wb") as f:
            for s_ in order:
                f.write(bytes(P.create_ccsds_packet(bytes([s_, 9]) + (b"\x07" if s_ == 2 else b""), apid=11)))
        st = monitored(xarr.create_dataset, path, defn3)
        ctx.count("evaluations")
        ctx.count("polymorphic.rejected")
        ctx.count("polymorphic.superset")
        if not isinstance(st.exc, ValueError):
            ctx.violation(f"polymorphic/not-rejected/superset/{'smaller-first' if order[0] == 1 else 'larger-first'}",
                          f"a stream whose APID 11 packets have field sets {{A}} and {{A, B}} (layout order {order}) gave {st.value!r} / {st.exc!r} instead of ValueError",
                          {"order": order})
        ctx.sig("polymorphic-superset", tuple(order))
    # ---- integer encodings the XTCE schema names besides unsigned / twosComplement: whatever the parser yields for them (it reads
    # every signed spelling as two's complement) must be what the dataset holds - the oracle here is the library's own generator
    for encname in ("onesComplement", "signMagnitude", "twosCompliment", "signed"):
        for width in (8, 16, 32, 64):
            t_e = ir.PType("E_Type", "integer", ir.IntEnc(width, encname))
            rt = ir.Container("CCSDSPacket", tuple(("p", p.name) for p in ps[:7]) + (("p", "E"),))
            dfn = load_definition(render.render_doc(ir.Doc(tuple(ts[:7]) + (t_e,), tuple(ps[:7]) + (ir.Param("E", "E_Type"),), (rt,))))
            path = os.path.join(scratch, "exotic.bin")
            vals = [0, 1, (1 << (width - 1)) - 1, 1 << (width - 1), (1 << width) - 1, (1 << (width - 1)) + 1]
            with open(path, "wb") as f:
                for v in vals:
                    f.write(bytes(P.create_ccsds_packet(v.to_bytes(width // 8, "big"), apid=12)))
            with open(path, "rb") as f:
                want = [int(pk_["E"]) for pk_ in dfn.packet_generator(f)]
            for raw_mode in (False, True):
                st = monitored(xarr.create_dataset, path, dfn, raw_mode)
                ctx.count("evaluations")
                ctx.count("exotic_encodings.datasets")
                wit = {"encoding": encname, "width": width, "mode": "raw" if raw_mode else "derived"}
                if st.exc is not None:
                    ctx.violation(f"exotic-encoding/exception/{type(st.exc).__name__}/{encname}", f"create_dataset raised {st.exc!r} for a {width}-bit {encname} integer "
                                  f"although the generator parses the packets ({want[:3]}...)", wit)
                    continue
                got = [int(x) for x in st.value[12]["E"].values]
                if got != want:
                    ctx.violation(f"exotic-encoding/cells/{encname}", f"cells {got} != values the generator yields {want}", wit)
            ctx.sig("exotic-encoding", encname, width)
    # ---- wide integers under an encoding that HAS calibrators none of which applies (context calibrators only): the parsed values are
    #      exact integers beyond 2**53 and must be stored exactly; parameter names with punctuation stay the variables' names ---------
    never = ir.ContextCal((ir.Comparison("VERSION", "7", "==", False),), ir.Poly(((2.0, 1),)))
    for width, encname in ((64, "unsigned"), (64, "twosComplement"), (56, "unsigned")):
        t_w = ir.PType("W_Type", "integer", ir.IntEnc(width, encname, False, None, (never,)))
        t_p = ir.PType("P_Type", "integer", ir.IntEnc(8, "unsigned"))
        names = ["HK-TEMP", "HK_TEMP", "VOLT(1)", "W"]
        rt = ir.Container("CCSDSPacket", tuple(("p", p.name) for p in ps[:7]) + tuple(("p", n_) for n_ in names))
        params = tuple(ps[:7]) + tuple(ir.Param(n_, "W_Type" if n_ == "W" else "P_Type") for n_ in names)
        dfn = load_definition(render.render_doc(ir.Doc(tuple(ts[:7]) + (t_w, t_p), params, (rt,))))
        vals = [(1 << width) - 1, (1 << 53) + 1, (1 << (width - 1)) + 3, (1 << (width - 4)) + 1] if encname == "unsigned" else [-(1 << 63), -(1 << 53) - 1, -3, -(1 << 60) - 1]
        path = os.path.join(scratch, "wide.bin")
        with open(path, "wb") as f:
            for j, v in enumerate(vals):
                f.write(bytes(P.create_ccsds_packet(bytes([j, 100 + j, 200 + j]) + (v % (1 << width)).to_bytes(width // 8, "big"), apid=13)))
        for raw_mode in (False, True):
            st = monitored(xarr.create_dataset, path, dfn, raw_mode)
            ctx.count("evaluations")
            ctx.count("wide_uncalibrated.datasets")
            wit = {"width": width, "encoding": encname, "mode": "raw" if raw_mode else "derived"}
            if st.exc is not None:
                ctx.violation(f"wide-uncalibrated/exception/{type(st.exc).__name__}", f"create_dataset raised {st.exc!r}", wit)
                continue
            ds = st.value[13]
            if sorted(ds.data_vars) != sorted([p.name for p in ps[:7]] + names):
                ctx.violation("variables/names-with-punctuation", f"variables {sorted(ds.data_vars)}, parameters {sorted([p.name for p in ps[:7]] + names)}", wit)
                continue
            got = [int(x) for x in ds["W"].values]
            if got != vals:
                ctx.violation(f"wide-uncalibrated/cells/{encname}", f"cells {got} != parsed values {vals}", wit)
            for n_, base in (("HK-TEMP", 0), ("HK_TEMP", 100), ("VOLT(1)", 200)):
                if [int(x) for x in ds[n_].values] != [base + j for j in range(len(vals))]:
                    ctx.violation("variables/cells-under-wrong-name", f"variable {n_!r} holds {[int(x) for x in ds[n_].values]}", wit)
        ctx.sig("wide-uncalibrated", width, encname)
    # ---- the same field SET in a different field ORDER within one APID (two layouts listing the parameters in opposite
    # orders): one field set, so a dataset is due, and every cell belongs to the variable of its own name
    ka = ir.Container("KA", (("p", "A"), ("p", "B")), "CCSDSPacket", (ir.Comparison("SEL", "1"),))
    kb = ir.Container("KB", (("p", "B"), ("p", "A")), "CCSDSPacket", (ir.Comparison("SEL", "2"),))
    defn2 = load_definition(render.render_doc(ir.Doc(tuple(ts), tuple(ps), (root, ka, kb))))
    for order in ([1, 2], [2, 1, 1, 2], [1, 1, 2, 2, 1]):
        path = os.path.join(scratch, "reordered.bin")
        exp_a, exp_b = [], []
        with open(path, "wb") as f:
            for j, sel in enumerate(order):
                first, second = 10 + j, 200 - j
                f.write(bytes(P.create_ccsds_packet(bytes([sel, first, second]), apid=11)))
                a_, b_ = (first, second) if sel == 1 else (second, first)
                exp_a.append(a_)
                exp_b.append(b_)
        for raw_mode in (False, True):
            st = monitored(xarr.create_dataset, path, defn2, raw_mode)
            ctx.count("evaluations")
            ctx.count("reordered_fields.datasets")
            wit = {"order_of_layouts": order, "mode": "raw" if raw_mode else "derived"}
            if st.exc is not None:
                ctx.violation(f"reordered-fields/exception/{type(st.exc).__name__}", f"one APID, one field set, two field orders: create_dataset raised {st.exc!r}", wit)
                continue
            got_a, got_b = [int(x) for x in st.value[11]["A"].values], [int(x) for x in st.value[11]["B"].values]
            if got_a != exp_a or got_b != exp_b:
                ctx.violation("reordered-fields/cells-in-wrong-variable", f"A={got_a} B={got_b}, parsed A={exp_a} B={exp_b}", dict(wit, A=got_a, B=got_b))
        ctx.sig("reordered-fields", tuple(order))
