"""C05 — container inheritance selects the unique matching structure, in order.

Monitor shape M over generated trees: the library's parse_ccsds_packet (and the generator) is compared with the
reference container walk: key sequence = path expansion (parents before children, nested references in place),
header/user_data split, UNRECOGNISED exactly for an abstract dead end or an ambiguity (with the values decoded so
far as partial data), a concrete dead end simply ends the packet.
Enumerated: small trees over a 2x2-bit steering alphabet with criteria from a pool of 13 x abstract flags x ALL 16
steering assignments, so every branch, dead end and ambiguity of every such tree is executed.
"""
import itertools

from vmon import gen, harness, ir, ref, render
from vmon.libutil import load_definition, monitored

LEVEL = "exploration"
SHARDS = {"quick": 16, "thorough": 16}
MUST = ["wide_literals.packets", "abstract.capitalised_spelling", "nested.nests-own-base", "trees.grouping_layer", "nested.embeds-root", "nested.twice", "nested.diamond", "nested.shared", "root_override.generator_runs", "root_override.single_parses", "root_override.default_root_afterwards", "outcome.ok", "outcome.unrecognized", "unrec.abstract-dead-end", "unrec.ambiguous", "end.concrete-dead-end",
        "end.leaf", "depth.>=2", "nested.expanded", "apid-name.other", "generator.error_objects", "trees.enumerated", "reparse.same_raw_object"]
RULE = ("document = container tree; packet = header + steering fields + one byte per container on the path; the library's "
        "outcome (item names in order, values, header/user_data views, unrecognized+partial data, or normal end) must "
        "equal the reference walk. Enumerated completely: all trees with <=2 non-root containers x criteria pool of 13 "
        "(six relations raw/calibrated on a 2-bit integer, label eq/ne on a 2-bit enumeration, a 2-comparison list, a "
        "boolean expression, a header-field comparison, none) x abstract flags x root abstract x ALL 16 steering "
        "assignments; trees with 3-4 containers (24 shapes) sampled; plus seeded random deeper documents with nested "
        "and shared containers (the same nested container twice in one entry list, in a diamond, shared by two path containers), "
        "documents whose APID parameter is not called PKT_APID, and root-override histories (decode from another container "
        "through root_container_name, then again from the definition's own root). distinct_nontrivial = "
        "distinct (tree shape, criteria ids, abstract flags, outcome class at each assignment) signatures; a single "
        "concrete root without children is the trivial tree and is excluded.")
ASSUMPTIONS = ["a parameter appears at most once on a path (a dict cannot represent it twice)",
               "criteria on value-compared paths cannot error (referenced parameters decoded earlier on every path)"]

S1 = ir.PType("S1_Type", "integer", ir.IntEnc(2, "unsigned", False, ir.Poly(((1.0, 0), (2.0, 1))), ()))  # calibrated: 1+2x
S2 = ir.PType("S2_Type", "enumerated", ir.IntEnc(2, "unsigned", False), None, ((0, "OFF"), (1, "ON"), (2, "IDLE"), (3, "SAFE")))
PAD = ir.PType("PAD_Type", "integer", ir.IntEnc(4, "unsigned", False))

POOL = [
    None,
    (ir.Comparison("S1", "1", "==", False),),
    (ir.Comparison("S1", "1", "!=", False),),
    (ir.Comparison("S1", "2", "<", False),),
    (ir.Comparison("S1", "5.0", ">=", True),),          # calibrated 1+2x >= 5  <=> x >= 2
    (ir.Comparison("S1", "3.0", "leq", True),),         # x <= 1
    (ir.Comparison("S1", "0", "gt", False),),
    (ir.Comparison("S2", "ON", "==", True),),
    (ir.Comparison("S2", "OFF", "neq", True),),
    (ir.Comparison("S2", "2", "==", False), ir.Comparison("S1", "0", "==", False)),
    ir.BoolExpr(ir.Or((ir.Condition("S1", "==", right_value="3", left_cal=False, right_cal=False),
                       ir.And((ir.Condition("S2", "==", right_value="SAFE", right_cal=False),
                               ir.Condition("S1", "<", right_param="S2", left_cal=False, right_cal=False)))))),
    (ir.Comparison("APIDNAME", "100", "==", True),),
    (ir.Comparison("S1", "0", "==", True),),             # calibrated value is 1+2x, never 0 => never holds
]


def header_types(apid_name):
    ts, ps = [], []
    for n, w in gen.HEADER:
        name = apid_name if n == "PKT_APID" else n
        ts.append(ir.PType(name + "_Type", "integer", ir.IntEnc(w, "unsigned", False)))
        ps.append(ir.Param(name, name + "_Type"))
    return ts, ps


def subst(crit, apid_name):
    if crit is None or isinstance(crit, ir.BoolExpr):
        return crit
    return tuple(ir.Comparison(apid_name if c.ref == "APIDNAME" else c.ref, c.value, c.op, c.calibrated) for c in crit)


def tree_doc(parents, crits, abstracts, root_abstract, apid_name="PKT_APID", nested=False, empty=()):
    """parents[i] in {-1 (root), 0..i-1}; container i is K{i} with one own byte X{i}"""
    ts, ps = header_types(apid_name)
    ts += [S1, S2, PAD]
    ps += [ir.Param("S1", "S1_Type"), ir.Param("S2", "S2_Type"), ir.Param("PAD", "PAD_Type")]
    conts = []
    root_entries = [("p", p.name) for p in ps[:7]] + [("p", "S1"), ("p", "S2"), ("p", "PAD")]
    if nested and nested != "embeds-root":
        ts.append(ir.PType("NB_Type", "integer", ir.IntEnc(8, "unsigned", False)))
        ps.append(ir.Param("NB", "NB_Type"))
        conts.append(ir.Container("NestedK", (("p", "NB"),)))
    if nested == "diamond":
        # two nested blocks sharing a sub-container: K0 = [NestedA = [NestedK, NA]] [NestedB = [NestedK, NB2]] X0
        for n_ in ("NA", "NB2"):
            ts.append(ir.PType(n_ + "_Type", "integer", ir.IntEnc(8, "unsigned", False)))
            ps.append(ir.Param(n_, n_ + "_Type"))
        conts.append(ir.Container("NestedA", (("c", "NestedK"), ("p", "NA"))))
        conts.append(ir.Container("NestedB", (("c", "NestedK"), ("p", "NB2"))))
    if nested == "embeds-root":
        # a container listed BEFORE the root that embeds the root (and K0) through ContainerRefEntry: the root - a base container on
        # every decode path - is first met as a forward reference while the document is loaded
        conts.append(ir.Container("ArchiveRecord", (("c", "CCSDSPacket"),) + ((("c", "K0"),) if parents else ())))
    for i, (par, ci, ab) in enumerate(zip(parents, crits, abstracts)):
        tn = f"X{i}_Type"
        ts.append(ir.PType(tn, "integer", ir.IntEnc(8, "unsigned", False)))
        ps.append(ir.Param(f"X{i}", tn))
        entries = [("p", f"X{i}")] if i not in empty else []      # empty: a pure grouping layer without entries of its own
        if nested and nested != "embeds-root" and i == 0:
            entries = {"twice": [("c", "NestedK"), ("p", f"X{i}"), ("c", "NestedK")],      # the same reference twice in one entry list
                       "diamond": [("c", "NestedA"), ("c", "NestedB"), ("p", f"X{i}")]}.get(nested, [("c", "NestedK"), ("p", f"X{i}")])
        elif nested == "shared" and i == 1:
            entries = [("p", f"X{i}"), ("c", "NestedK")]      # a second path container referencing the same nested container
        elif nested == "nests-own-base" and i >= 1 and par >= 0:
            # a container that extends K{par} and also embeds another K{par} (a "pair" record): the embedded one is expanded in place
            entries = [("p", f"X{i}"), ("c", f"K{par}")]
        conts.append(ir.Container(f"K{i}", tuple(entries), "CCSDSPacket" if par < 0 else f"K{par}", subst(POOL[ci], apid_name), ab))
    conts.append(ir.Container("CCSDSPacket", tuple(root_entries), None, None, root_abstract))
    return ir.Doc(tuple(ts), tuple(ps), tuple(conts))


def packet_for(doc, s1, s2, apid, out_len_hint=None):
    """header + S1 S2 PAD + enough bytes for any path (extra bytes are fine: consumption is not C05's business)"""
    from space_packet_parser import packets as P
    body = bytes([(s1 << 6) | (s2 << 4) | 0x5]) + bytes(range(0x11, 0x11 + 12))
    return bytes(P.create_ccsds_packet(body, apid=apid, sequence_count=s1 * 4 + s2))


def exercise(ctx, doc, shape_sig, apids=(100,), via_generator=False, sample=False, xml_filter=None):
    info = harness.DocInfo(doc)
    xml = render.render_doc(doc, opts=render.Opts(explicit=None, rng=ctx.rng("opts")))
    if xml_filter is not None:
        xml = xml_filter(xml)
    if sum(map(ord, shape_sig)) % 4 == 1 and b'abstract="true"' in xml:
        # the flag as str(True) of a generating script would write it (the loader reads the attribute case-insensitively)
        cap = (b"True", b"TRUE")[len(shape_sig) % 2]
        xml = xml.replace(b'abstract="true"', b'abstract="' + cap + b'"').replace(b'abstract="false"', b'abstract="False"')
        ctx.count("abstract.capitalised_spelling")
    ld = monitored(load_definition, xml)
    if ld.exc is not None:
        ctx.violation(f"load/exception/{type(ld.exc).__name__}", f"could not load tree document: {ld.exc!r}", {"shape": shape_sig})
        return
    defn = ld.value
    outcomes = []
    raws = []
    for s1, s2 in itertools.product(range(4), repeat=2):
        for apid in apids:
            raw = packet_for(doc, s1, s2, apid)
            out = ref.walk(doc, raw)
            # the tail bytes are deliberately generous: trim the packet to exactly what the path consumes
            nbytes = (out.pos + 7) // 8
            if out.status in ("ok", "unrecognized") and nbytes >= 7:
                from space_packet_parser import packets as P
                raw = bytes(P.create_ccsds_packet(raw[6:nbytes] if nbytes > 6 else b"\x00", apid=apid, sequence_count=s1 * 4 + s2))
                out = ref.walk(doc, raw)
            step, pkt = harness.parse_single(defn, raw)
            ctx.count("evaluations")
            cls = out.status if out.status != "unrecognized" else out.unrec_kind
            outcomes.append(cls[0])
            raws.append((raw, out))
            if out.status == "unrecognized":
                ctx.count(f"unrec.{out.unrec_kind}")
            elif out.status == "ok":
                cm = doc.container_map()
                has_kids = any(c.base == out.path[-1] for c in doc.containers)
                ctx.count("end.concrete-dead-end" if has_kids else "end.leaf")
            if len(out.path) >= 3:
                ctx.count("depth.>=2")
            if any(n == "NB" for n, _ in out.items):
                ctx.count("nested.expanded")
            if (s1 + s2) % 5 == 0:
                why = harness.reparse_same_object(defn, raw)
                ctx.count("reparse.same_raw_object")
                if why:
                    ctx.violation("reparse/same-raw-object", why, {"shape": shape_sig, "raw": raw})
            for mech, msg in harness.judge_single(ctx, info, raw, step, pkt, out):
                ctx.violation(mech if not mech.startswith("exception/") else mech + f"/{cls}", msg,
                              {"shape": shape_sig, "s1": s1, "s2": s2, "apid": apid, "raw": raw, "model_path": out.path,
                               "model_status": out.status, "model_unrec": out.unrec_kind,
                               "containers": [(c.name, c.base, c.abstract, repr(c.criteria)[:120]) for c in doc.containers]})
    # ---- a per-call root override (root_container_name=...) applies to that call only: decode from another container, then
    # decode again without an override - from the definition's own root - and judge against the same model outcomes
    if len(doc.containers) > 1 and (via_generator or sum(map(ord, shape_sig)) % 3 == 0):
        other = doc.containers[1 + sum(map(ord, shape_sig)) % (len(doc.containers) - 1)].name
        stream = b"".join(r for r, _ in raws)
        ov = monitored(lambda: list(defn.packet_generator(stream, root_container_name=other, yield_unrecognized_packet_errors=True)))
        ctx.count("root_override.generator_runs")
        for (raw, _), k_ in zip(raws, range(3)):
            o2 = ref.walk(doc, raw, other)
            st2, pk2 = harness.parse_single(defn, raw, other)
            ctx.count("root_override.single_parses")
            for mech, msg in harness.judge_single(ctx, info, raw, st2, pk2, o2):
                ctx.violation("root-override/" + mech, f"decoding from container {other}: " + msg, {"shape": shape_sig, "root": other, "raw": raw})
        for raw, out in raws:
            step, pkt = harness.parse_single(defn, raw)
            ctx.count("root_override.default_root_afterwards")
            for mech, msg in harness.judge_single(ctx, info, raw, step, pkt, out):
                ctx.violation("after-root-override/" + mech, f"after a generator run with root_container_name={other!r}, a decode without an override: " + msg,
                              {"shape": shape_sig, "override": other, "raw": raw, "model_path": out.path})
                break
    ctx.sig(shape_sig, "".join(outcomes))
    if sample:
        ctx.sample({"shape": shape_sig, "outcomes_for_16_assignments": "".join(outcomes),
                    "containers": [(c.name, c.base, c.abstract, repr(c.criteria)[:80]) for c in doc.containers]})
    if via_generator:
        good = [(r, o) for r, o in raws if o.status in ("ok", "unrecognized")]
        from vmon.props.c01 import compare_stream
        before = ctx.counters["stream.error_objects"]
        compare_stream(ctx, info, defn, [g[0] for g in good], [g[1] for g in good], "bytes", True, ctx.rng("s"))
        ctx.count("generator.error_objects", ctx.counters["stream.error_objects"] - before)


def wide_literals(ctx):
    """restrictions that compare a 64-bit parameter with literals a double cannot hold (2**53+1, 2**64-1, ...), as Comparison and as
    Condition, with equality and ordering operators: neighbouring values must select the neighbouring sibling / none"""
    from space_packet_parser import packets as P
    ts, ps = header_types("PKT_APID")
    ts += [ir.PType("BIG_T", "integer", ir.IntEnc(64, "unsigned")), ir.PType("Y_T", "integer", ir.IntEnc(8, "unsigned"))]
    ps += [ir.Param("BIG", "BIG_T"), ir.Param("Y", "Y_T")]
    hdr = tuple(("p", p.name) for p in ps[:7])
    lits = [2 ** 53 + 1, 2 ** 53, 2 ** 64 - 1, 2 ** 63 + 1]
    for form in ("condition", "comparison", "condition-ordering"):
        kids = []
        for j, lit in enumerate(lits):
            if form == "condition":
                crit = ir.BoolExpr(ir.Condition("BIG", "==", right_value=str(lit), right_cal=False))
            elif form == "comparison":
                crit = (ir.Comparison("BIG", str(lit), "==", False),)
            else:
                crit = ir.BoolExpr(ir.And((ir.Condition("BIG", ">=", right_value=str(lit), right_cal=False), ir.Condition("BIG", "<", right_value=str(lit + 1), right_cal=False))))
            kids.append(ir.Container(f"K{j}", (("p", "Y"),), "CCSDSPacket", crit))
        doc = ir.Doc(tuple(ts), tuple(ps), (ir.Container("CCSDSPacket", hdr + (("p", "BIG"),), None, None, True),) + tuple(kids))
        info = harness.DocInfo(doc)
        defn = load_definition(render.render_doc(doc))
        for v in sorted({x + d for x in lits for d in (-2, -1, 0, 1, 2) if 0 <= x + d < 2 ** 64}):
            raw = bytes(P.create_ccsds_packet(v.to_bytes(8, "big") + b"\x07", apid=100))
            out = ref.walk(doc, raw)
            step, pkt = harness.parse_single(defn, raw)
            ctx.count("evaluations")
            ctx.count("wide_literals.packets")
            ctx.sig("wide-literal", form, out.status)
            for mech, msg in harness.judge_single(ctx, info, raw, step, pkt, out):
                ctx.violation(f"wide-literal/{form}/{mech}", f"BIG={v}: {msg}", {"form": form, "value": str(v)})


def run(ctx):
    if ctx.shard == 4 % ctx.nshards:
        wide_literals(ctx)
    rng = ctx.rng("c05")
    item = 0
    npool = len(POOL)
    # ---- all trees with <= 2 non-root containers, complete --------------------------------------------------------
    for k in (0, 1, 2):
        shapes = list(itertools.product(*[range(-1, i) for i in range(k)])) if k else [()]
        for parents in shapes:
            for crits in itertools.product(range(npool), repeat=k):
                for abstracts in itertools.product((False, True), repeat=k):
                    for root_abs in (False, True):
                        if k == 0 and not root_abs:
                            continue
                        item += 1
                        if not ctx.mine(item):
                            continue
                        doc = tree_doc(parents, crits, abstracts, root_abs)
                        exercise(ctx, doc, f"k{k}/{parents}/{crits}/{abstracts}/{int(root_abs)}",
                                 apids=(100, 7) if 11 in crits else (100,), via_generator=(item % 9 == 0), sample=(item in (40, 700)))
                        ctx.count("trees.enumerated")
                        if k == 2 and parents == (-1, 0) and abstracts[0]:
                            # the same chain with K0 as a grouping layer: abstract, no entries of its own, a single inheritor
                            doc = tree_doc(parents, crits, abstracts, root_abs, empty=(0,))
                            exercise(ctx, doc, f"k{k}/{parents}/{crits}/{abstracts}/{int(root_abs)}/grouping-layer", apids=(100,))
                            ctx.count("trees.grouping_layer")
    ctx.exhaustive_space("trees with <=2 non-root containers x 13 criteria x abstract flags x root abstract x 16 assignments", 1)
    # ---- 3 and 4 containers: sampled -------------------------------------------------------------------------------
    for k in (3, 4):
        shapes = list(itertools.product(*[range(-1, i) for i in range(k)]))
        for t in range(ctx.size(1500, 100_000)):
            item += 1
            if not ctx.mine(item):
                continue
            parents = rng.choice(shapes)
            crits = tuple(rng.randrange(npool) for _ in range(k))
            abstracts = tuple(rng.random() < 0.4 for _ in range(k))
            apid_name = rng.choice(["PKT_APID", "PKT_APID", "APID", "ApplicationId"])
            if apid_name != "PKT_APID":
                ctx.count("apid-name.other")
            nested = rng.choice([False, False, False, True, True, "twice", "diamond", "shared", "embeds-root", "nests-own-base"])
            if nested == "nests-own-base" and not any(p_ >= 0 for p_ in parents):
                nested = "twice"
            if nested in ("twice", "diamond", "shared", "embeds-root", "nests-own-base"):
                ctx.count(f"nested.{nested}")
            empty = tuple(i_ for i_ in range(k) if abstracts[i_] and rng.random() < 0.4) if not nested else ()
            doc = tree_doc(parents, crits, abstracts, rng.random() < 0.6, apid_name, nested=nested, empty=empty)
            exercise(ctx, doc, f"k{k}/{parents}/{crits}/{abstracts}", apids=(100,), via_generator=(t % 7 == 0))
    # ---- header-name probe: abstract root, nothing matches, APID parameter not called PKT_APID -------------------------
    for apid_name in ("APID", "PKT_APID", "CCSDS_APID"):
        doc = tree_doc((-1,), (12,), (False,), True, apid_name)
        if apid_name != "PKT_APID":
            ctx.count("apid-name.other")
        if ctx.mine(item):
            exercise(ctx, doc, f"probe/{apid_name}", via_generator=True)
        item += 1
    # ---- random deeper documents (nested + shared containers, criteria on user-data fields) ------------------------------
    prof = gen.Profile(max_depth=4, max_fanout=3, p_abstract=0.5, p_nested=0.35, p_dynamic=0.1, p_calibrated=0.15,
                       kinds=("integer", "enumerated", "boolean", "binary"))
    for d in range(ctx.size(250, 20000)):
        if not ctx.mine(d):
            continue
        r2 = ctx.rng("deep", d)
        doc = gen.gen_document(r2, prof)
        info = harness.DocInfo(doc)
        ld = monitored(load_definition, render.render_doc(doc))
        if ld.exc is not None:
            ctx.violation(f"load/exception/{type(ld.exc).__name__}", repr(ld.exc), {"doc": d})
            continue
        for raw in gen.gen_packets(r2, doc, ctx.size(30, 60)):
            out = ref.walk(doc, raw)
            step, pkt = harness.parse_single(ld.value, raw)
            ctx.count("evaluations")
            if len(out.path) >= 3:
                ctx.count("depth.>=2")
            if out.status == "unrecognized":
                ctx.count(f"unrec.{out.unrec_kind}")
            if any(c in info.nested for c in out.path) or any(k == "c" for c in doc.containers if c.name in out.path for k, _ in c.entries):
                ctx.count("nested.expanded")
            ctx.sig("deep", out.status, out.unrec_kind, len(out.path), sum(1 for c in doc.containers if c.name in out.path and c.abstract))
            for mech, msg in harness.judge_single(ctx, info, raw, step, pkt, out):
                ctx.violation("deep/" + mech, msg, {"doc": d, "raw": raw, "model_path": out.path, "model_status": out.status})
