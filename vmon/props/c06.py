"""C06 — match criteria evaluate to the mathematical truth of their comparisons.

Monitor shape M (direct driving) + light K: criteria described in the IR are built by BOTH routes (constructors and
from_xml of elements rendered by my own writer) and evaluated by the library's own evaluators on synthetic packets;
every result is compared with the reference evaluator (plain built-ins + operator module, literal coerced to the
operand's type). A result that is not a `bool` (e.g. NotImplemented) is itself a witness. List conjunction and
first-match lookup are observed through the library's real list evaluators (DiscreteLookup.evaluate,
a binary / string parameter whose length is a lookup list, observed through parse_value).
"""
import itertools

from vmon import build, ir, ref, render, synth
from vmon.libutil import monitored, xtce_element

LEVEL = "exploration"
SHARDS = {"quick": 16, "thorough": 16}
MUST = ["end_to_end.documents", "end_to_end.sibling_documents", "end_to_end.entity_spelling", "context_history.decodes", "history.selfref_first", "history.evaluated_twice", "form.comparison", "form.condition-value", "form.condition-param", "form.boolexpr", "form.list", "form.lookup",
        "route.ctor", "route.xml", "truth.true", "truth.false", "operand.falsy", "operand.int-vs-float", "spellings.all"]
RULE = ("case = (criteria IR, assignment of (value, raw_value) to the referenced parameters, construction route); the "
        "library's evaluate() result must be the bool the model computes. Enumerated completely: all 16 operator "
        "spellings x both value selectors x operand kinds {int, float, str, bool} x operand values incl. "
        "0/-0.0/False/''/negative, for Comparison, Condition-vs-literal and Condition-vs-parameter (int-vs-float in both "
        "orders); every AND/OR tree shape with <= 4 leaves (depth <= 3) x all 32 assignments of three parameters; "
        "comparison lists of length 1..3; lookups of 1..3 entries (first match, no match). Plus seeded random larger "
        "trees. distinct_nontrivial = distinct (form, canonical relation, selector(s), operand kinds, falsy?, route, "
        "tree shape) signatures whose model truth value is defined; ('comparison','eq',calibrated,int,non-falsy) is the "
        "trivial signature and is excluded.")
ASSUMPTIONS = ["cases where the model has no defined truth value (literal not coercible, unorderable kinds, reference not "
               "decoded) are executed but not judged",
               "string ordering is Python's code-point ordering",
               "a number compared with a string has no defined relation and is not judged",
               "empty-string literals are not generated for <Value> (an empty element has no text node)"]

SPELLINGS = list(ir.OPS)


def packet_of(assign):
    pkt, env, _ = synth.packet_of(assign)
    return pkt, env


kind_of = synth.kind_of


def falsy(x):
    return not x


class Builder:
    """both construction routes for one criteria object"""

    def __init__(self, ctx):
        self.ctx = ctx
        self.rng = ctx.rng("builder")

    def make(self, obj, route):
        from space_packet_parser.xtce import calibrators as K
        from space_packet_parser.xtce import comparisons as C
        o = render.Opts(explicit=None, rng=self.rng)
        self.ctx.count(f"route.{route}")
        if route == "ctor":
            if isinstance(obj, ir.Comparison):
                return build.comparison(obj)
            if isinstance(obj, ir.Condition):
                return build.condition(obj)
            if isinstance(obj, ir.BoolExpr):
                return build.boolexpr(obj)
            if isinstance(obj, tuple):  # comparison list -> DiscreteLookup is the library's list evaluator
                return C.DiscreteLookup([build.comparison(c) for c in obj], 1.0)
        else:
            if isinstance(obj, ir.Comparison):
                return C.Comparison.from_xml(xtce_element(render.render_fragment(render.comparison_el(obj, o))))
            if isinstance(obj, ir.Condition):
                return C.Condition.from_xml(xtce_element(render.render_fragment(render.condition_el(obj, o))))
            if isinstance(obj, ir.BoolExpr):
                el = render.E("BooleanExpression", children=[render.bool_el(obj.expr, o)])
                return C.BooleanExpression.from_xml(xtce_element(render.render_fragment(el)))
            if isinstance(obj, tuple):
                o.single_in_list = self.rng.random() < 0.5
                el = render.E("DiscreteLookup", {"value": "1.0"}, render.criteria_els(obj, o))
                return C.DiscreteLookup.from_xml(xtce_element(render.render_fragment(el)))
        raise TypeError(obj)


def judge(ctx, form, obj, libobj, pkt, env, route, sig, current=None, shape=""):
    """evaluate both, compare"""
    ctx.count("evaluations")
    ctx.count(f"form.{form}")
    try:
        if isinstance(obj, tuple):
            exp = ref.eval_criteria(obj, env, current)
        elif isinstance(obj, ir.BoolExpr):
            exp = ref.eval_bool(obj.expr, env)
        elif isinstance(obj, ir.Comparison):
            exp = ref.eval_comparison(obj, env, current)
        else:
            exp = ref.eval_condition(obj, env)
    except ref.ModelError:
        ctx.count("model.error_expected")
        monitored(libobj.evaluate, pkt, current) if current is not None else monitored(libobj.evaluate, pkt)
        return
    except ref.DontCare:
        return
    ctx.count("truth.true" if exp else "truth.false")
    # evaluation history on the SAME criteria object: criteria objects are shared (one ContextMatch serves every parameter of a
    # type; one definition serves every packet), so an earlier evaluation must not change a later one
    hist = ""
    hsel = ctx.counters["evaluations"] % 5
    if hsel == 1 and isinstance(obj, ir.Comparison) and current is None:
        from space_packet_parser import packets as _P
        for cur in (1, 0.5):
            monitored(libobj.evaluate, _P.CCSDSPacket(), cur)      # self-referencing use: parameter not in the packet yet
        hist = "/after-self-referencing-evaluation"
        ctx.count("history.selfref_first")
    elif hsel == 3:
        monitored(libobj.evaluate, pkt, current) if current is not None else monitored(libobj.evaluate, pkt)
        hist = "/second-evaluation"
        ctx.count("history.evaluated_twice")
    step = monitored(libobj.evaluate, pkt, current) if current is not None else monitored(libobj.evaluate, pkt)
    got = step.value
    if isinstance(obj, tuple) and step.exc is None:
        got = (got is not None) if (got is None or got == 1.0) else got   # DiscreteLookup: value or None
    wit = {"criteria": repr(obj)[:600], "assignment": {k: (v.cls, v.value, v.raw) for k, v in env.items()},
           "route": route, "expected": exp, "got": repr(step.value), "exception": repr(step.exc) if step.exc else None}
    if sig:
        ctx.sig(form, route, shape, *sig)
    feats = features(obj, env, route) + hist
    if step.exc is not None:
        ctx.violation(f"{form}/exception/{type(step.exc).__name__}/{feats}",
                      f"evaluate raised {type(step.exc).__name__} where the relation has truth value {exp}: {step.exc}", wit)
    elif got is not True and got is not False:
        ctx.violation(f"{form}/non-bool/{type(got).__name__}/{feats}",
                      f"evaluate returned {got!r} (not a bool); truth value is {exp}", wit)
    elif got is not exp:
        ctx.violation(f"{form}/wrong-truth/{feats}", f"evaluate returned {got}, the relation is {exp}", wit)


def leaves_of(obj):
    if isinstance(obj, (ir.Comparison, ir.Condition)):
        return [obj]
    if isinstance(obj, tuple):
        return list(obj)
    if isinstance(obj, ir.BoolExpr):
        return leaves_of(obj.expr)
    out = []
    for i in obj.items:
        out += leaves_of(i)
    return out


def features(obj, env, route):
    """mechanism features of a failing case: which operand situations occur among its leaves"""
    f = set()
    for lf in leaves_of(obj):
        if isinstance(lf, ir.Comparison):
            v = env.get(lf.ref)
            if v is not None:
                x = v.value if lf.calibrated else v.raw
                if isinstance(x, float) and x != x:
                    f.add("nan-operand")
                elif not x:
                    f.add("falsy-cal-operand" if lf.calibrated else "falsy-raw-operand")
                f.add("rel-" + ir.OPS[lf.op])
        else:
            a = env.get(lf.left)
            b_ = env.get(lf.right_param) if lf.right_param else None
            if a is not None and b_ is not None:
                x, y = (a.value if lf.left_cal else a.raw), (b_.value if lf.right_cal else b_.raw)
                kx, ky = kind_of(x), kind_of(y)
                if any(isinstance(z, float) and z != z for z in (x, y)):
                    f.add("nan-operand")
                if kx != ky:
                    f.add(f"{kx}-vs-{ky}")
            f.add("rel-" + ir.OPS[lf.op])
    rels = sorted(x for x in f if x.startswith("rel-"))
    rest = sorted(x for x in f if not x.startswith("rel-"))
    if len(rels) > 1:
        rels = ["rel-mixed"]
    return ",".join(rest + rels) or "plain"


# ---- operand pools ----------------------------------------------------------------------------------------------
def operand_cases():
    """(name, kind, value, raw) for single-operand tests; value = derived, raw = raw_value"""
    out = []
    for v in (0, 1, -1, 2, 7, 255, 2 ** 53 + 1, 2 ** 64 - 1, -(2 ** 53) - 1):
        # integers a double cannot hold stay exact: 9007199254740993 is not 9007199254740992
        out.append(("int", v, v))
    for v, r in ((0.0, 0), (-0.0, 0), (0.5, 1), (1.0, 2), (-2.5, -5), (1e10, 3), (2.0, 4),
                 (float("nan"), 5), (float("inf"), 6), (float("-inf"), -7), (3.0, float("nan"))):
        # not-a-number (a common "no data" fill) is unordered: only != holds; the infinities are ordinary ordered values
        out.append(("float", v, r))
    for v, r in (("", 0), ("A", 1), ("OFF", 0), ("ON", 1), ("b", 2), ("AB  ", 3), (" A", 4),
                 ("007", 5), ("7", 6), ("+5", 7), ("-0", 8), ("1e3", 9), ("0x10", 10)):
        # text that looks like a number is still text: "007" is not "7"
        out.append(("str", v, r))
    for v, r in ((False, 0), (True, 1), (True, 2)):
        out.append(("bool", v, r))
    return out


def literals_for(x):
    if isinstance(x, bool) or isinstance(x, int):
        return [str(int(x)), str(int(x) + 1), str(int(x) - 1), "0"]
    if isinstance(x, float):
        return [repr(x), repr(x + 0.5), "0", "0.0", "-1", "1e10"] + (["nan", "inf", "-inf"] if (x != x or x in (1.0, 0.0) or abs(x) == float("inf")) else [])
    return [x or "B", "A", "ON", "a", x + "  ", " " + x, "AB  "] + (["007", "7", "+5", "5", "-0", "0", "1e3", "1000.0", "0x10", "16"] if x[:1] in "07+-1" and x else [])


def run(ctx):
    rng = ctx.rng("c06")
    B = Builder(ctx)
    routes = ("ctor", "xml")
    item = 0
    from space_packet_parser.xtce.comparisons import MatchCriteria
    accepted = set(getattr(MatchCriteria, "_valid_operators", {})) or set(SPELLINGS)
    ctx.count("spellings.all", 1 if set(SPELLINGS) >= accepted else 0)
    for extra in sorted(accepted - set(SPELLINGS)):
        ctx.note(f"library accepts an operator spelling the workload does not drive: {extra!r}")

    # ---- 1. Comparison / Condition-vs-literal: spellings x selectors x operands --------------------------------
    for op in SPELLINGS:
        for kind, value, raw in operand_cases():
            for cal in (True, False):
                item += 1
                if not ctx.mine(item):
                    continue
                x = value if cal else raw
                for lit in literals_for(x):
                    assign = {"P": (kind, value, raw)}
                    pkt, env = packet_of(assign)
                    fz = "falsy" if falsy(x) else "truthy"
                    if falsy(x):
                        ctx.count("operand.falsy")
                    sig = (ir.OPS[op], "cal" if cal else "raw", kind_of(x), fz)
                    trivial = sig == ("eq", "cal", "int", "truthy")
                    for route in routes:
                        c = ir.Comparison("P", lit, op, cal)
                        judge(ctx, "comparison", c, B.make(c, route), pkt, env, route, () if trivial else sig)
                        cd = ir.Condition("P", op, right_value=lit, left_cal=cal, right_cal=False)
                        judge(ctx, "condition-value", cd, B.make(cd, route), pkt, env, route, sig)
                    # self-reference (context-calibrator style): parameter not yet in the packet, current raw value given
                    if not cal and not isinstance(raw, str):
                        from space_packet_parser import packets
                        c = ir.Comparison("SELF", str(int(raw)) if isinstance(raw, int) else repr(raw), op, False)
                        judge(ctx, "comparison", c, B.make(c, "ctor"), packets.CCSDSPacket(), {}, "ctor",
                              (ir.OPS[op], "self", kind_of(raw), "falsy" if falsy(raw) else "truthy"), current=raw)
    ctx.exhaustive_space("16 operator spellings x 2 selectors x 34 operand cases x literals x 2 routes", 1)

    # ---- 2. Condition parameter-vs-parameter incl. int-vs-float in both orders ------------------------------------
    pool = [("int", 0, 0), ("int", 3, 3), ("int", -1, -1), ("float", 0.0, 0), ("float", 3.0, 6), ("float", 2.5, 5),
            ("float", -0.0, 0), ("bool", True, 1), ("bool", False, 0), ("str", "A", 1), ("str", "", 0), ("int", 2 ** 53 + 1, 1),
            ("float", float(2 ** 53), 2), ("float", float("nan"), 4), ("float", float("inf"), 7)]
    for op in SPELLINGS:
        for a, b_ in itertools.product(pool, repeat=2):
            item += 1
            if not ctx.mine(item):
                continue
            for lc, rc in itertools.product((True, False), repeat=2):
                pkt, env = packet_of({"L": a, "R": b_})
                la, rb = (a[1] if lc else a[2]), (b_[1] if rc else b_[2])
                if {kind_of(la), kind_of(rb)} == {"int", "float"}:
                    ctx.count("operand.int-vs-float")
                cd = ir.Condition("L", op, right_param="R", left_cal=lc, right_cal=rc)
                sig = (ir.OPS[op], "cal" if lc else "raw", "cal" if rc else "raw", kind_of(la), kind_of(rb))
                route = routes[item % 2]
                judge(ctx, "condition-param", cd, B.make(cd, route), pkt, env, route, sig)
    ctx.exhaustive_space("16 spellings x 15x15 operand pairs x 4 selector combinations", 1)

    # ---- 3. boolean expression trees: all shapes <= 4 leaves x all assignments ---------------------------------
    leaves = [ir.Condition("A", "==", right_value="1", right_cal=False), ir.Condition("A", "<", right_param="B"),
              ir.Condition("B", ">=", right_value="0.5", right_cal=False), ir.Condition("C", "==", right_value="A", right_cal=False),
              ir.Condition("A", "!=", right_value="0", right_cal=False), ir.Condition("B", "leq", right_param="A", right_cal=True),
              ir.Condition("C", "neq", right_value="B", right_cal=False), ir.Condition("A", "&gt;", right_value="-1", left_cal=False, right_cal=False),
              # pairs that differ ONLY in a calibrated/raw selector (B: derived float, raw 1; the relation flips between them)
              ir.Condition("B", "==", right_value="1", left_cal=True, right_cal=False), ir.Condition("B", "==", right_value="1", left_cal=False, right_cal=False),
              ir.Condition("A", "<", right_param="B", left_cal=True, right_cal=True), ir.Condition("A", "<", right_param="B", left_cal=True, right_cal=False)]
    assigns = [{"A": ("int", a, a), "B": ("float", b_, 1), "C": ("str", c, 0)}
               for a in (0, 1, -1, 2) for b_ in (0.0, 0.5, -0.0, 1.0) for c in ("", "A")]
    shapes = list(tree_shapes(4))
    for si, shp in enumerate(shapes):
        nl = count_leaves(shp)
        combos = list(itertools.product(range(len(leaves)), repeat=nl)) if nl <= 2 else \
            [tuple(rng.randrange(len(leaves)) for _ in range(nl)) for _ in range(ctx.size(30, 2000))]
        for ci, combo in enumerate(combos):
            item += 1
            if not ctx.mine(item):
                continue
            it = iter(combo)
            tree = fill(shp, it, leaves)
            bx = ir.BoolExpr(tree)
            libs = {r: B.make(bx, r) for r in routes}
            for ai, asg in enumerate(assigns):
                pkt, env = packet_of(asg)
                route = routes[(ai + ci) % 2]
                judge(ctx, "boolexpr", bx, libs[route], pkt, env, route, (shape_str(shp),), shape=shape_str(shp))
            if si < 3 and ci == 0:
                ctx.sample({"boolexpr": repr(bx), "assignments": 32})
    ctx.exhaustive_space(f"AND/OR tree shapes with <= 4 leaves ({len(shapes)} shapes) x 32 assignments", 1)

    # ---- 4. comparison lists (conjunction) and lookups (first match) --------------------------------------------
    absent = ir.Comparison("NOT_IN_THIS_PACKET", "1")     # a parameter other packet kinds carry; only reachable after a false comparison
    comps = [ir.Comparison("A", "1"), ir.Comparison("A", "0", "!="), ir.Comparison("B", "0.5", ">=", True),
             ir.Comparison("B", "1", "==", False), ir.Comparison("C", "A"), ir.Comparison("A", "2", "<", False),
             ir.Comparison("C", "", "!=")]
    for n in (1, 2, 3):
        for combo in itertools.product(range(len(comps)), repeat=n):
            item += 1
            if not ctx.mine(item):
                continue
            lst = tuple(comps[i] for i in combo)
            libs = {r: B.make(lst, r) for r in routes}
            for ai, asg in enumerate(assigns):
                pkt, env = packet_of(asg)
                route = routes[ai % 2]
                judge(ctx, "list", lst, libs[route], pkt, env, route, ("len", n))
    lookups(ctx, comps, assigns, rng, absent)
    end_to_end(ctx)
    siblings_sharing_a_leading_equality(ctx)
    if ctx.mine(2):
        context_history(ctx)

    # ---- 5. seeded random larger trees ------------------------------------------------------------------------------
    for i in range(ctx.size(3000, 2_000_000) // ctx.nshards):
        tree = random_tree(rng, leaves, depth=rng.randrange(2, 5))
        bx = ir.BoolExpr(tree)
        route = rng.choice(routes)
        lib = B.make(bx, route)
        for asg in rng.sample(assigns, 6):
            pkt, env = packet_of(asg)
            judge(ctx, "boolexpr", bx, lib, pkt, env, route, ("random", min(count_leaves_ir(tree), 12)), shape="random")


def end_to_end(ctx):
    """the same criteria as RestrictionCriteria selecting child containers in real decoding: a three-level chain root -> K0 -> K1
    where K0 is (a) an ordinary container, (b) an abstract grouping layer without entries of its own; all 16 steering assignments"""
    from vmon.props import c05
    n = 0
    for c0 in range(len(c05.POOL)):
        for c1 in (0, 3, len(c05.POOL) - 1):
            for abstract0, empty in ((False, ()), (True, ()), (True, (0,))):
                n += 1
                if not ctx.mine(n):
                    continue
                doc = c05.tree_doc((-1, 0), (c0, c1), (abstract0, False), True, empty=empty)
                # documents whose criteria carry <Value> text are also spelled with internal DTD entities (every other one)
                use_ent = isinstance(c05.POOL[c0], ir.BoolExpr) and n % 2 == 0
                if use_ent:
                    ctx.count("end_to_end.entity_spelling")
                c05.exercise(ctx, doc, f"e2e/{c0}/{c1}/{int(abstract0)}/{'grouping-layer' if empty else 'plain'}{'/entities' if use_ent else ''}",
                             xml_filter=entityfy if use_ent else None)
                ctx.count("end_to_end.documents")


def entityfy(xml: bytes) -> bytes:
    """the same document spelled with an internal DTD entity: the last character of every <Value> text and of one attribute value is
    written as an entity reference (a purely lexical change: an XML parser hands the same text to the application)"""
    import re
    n = [0]

    def val(m):
        n[0] += 1
        return m.group(1) + m.group(2)[:-1] + b"&vmonlast" + str(n[0]).encode() + b";" + m.group(3)
    ents = []
    out = re.sub(rb"(<[A-Za-z0-9_.:-]*Value>)([^<&]+)(</)", val, xml)
    texts = re.findall(rb"<[A-Za-z0-9_.:-]*Value>([^<&]+)</", xml)
    for i_, t_ in enumerate(texts, 1):
        ents.append(b'<!ENTITY vmonlast' + str(i_).encode() + b' "' + t_[-1:] + b'">')
    if not ents:
        return xml
    root_name = re.search(rb"<([A-Za-z0-9_.:-]*SpaceSystem)", out).group(1)
    head, sep, rest = out.partition(b"?>")
    return head + sep + b"\n<!DOCTYPE " + root_name + b" [" + b"".join(ents) + b"]>" + rest


def context_history(ctx):
    """context calibrators with OVERLAPPING criteria on one encoding object used for a sequence of packets: every value is
    calibrated by the FIRST listed context whose criteria hold, whatever was evaluated before"""
    from vmon import synth
    from space_packet_parser import packets as P
    cc = (ir.ContextCal((ir.Comparison("MODE", "5", "<=", False),), ir.Poly(((10.0, 1),))),
          ir.ContextCal((ir.Comparison("MODE", "3", ">=", False),), ir.Poly(((100.0, 1),))),
          ir.ContextCal((ir.Comparison("MODE", "8", "==", False), ir.Comparison("MODE", "3", ">=", False)), ir.Poly(((1000.0, 1),))))
    t = ir.PType("T", "float", ir.IntEnc(8, "unsigned", False, ir.Poly(((0.5, 1),)), cc))
    for route in ("ctor", "xml"):
        lib = build.ptype(t) if route == "ctor" else None
        if lib is None:
            from space_packet_parser.xtce import parameter_types as T_
            lib = getattr(T_, ir.KIND_TAG[t.kind]).from_xml(xtce_element(render.render_fragment(render.type_el(t, render.Opts()))))
        for seq in ([9, 4, 1, 4, 9, 3, 5, 6, 2, 8, 4], [4, 9, 4], [8, 5, 8, 2, 9, 9, 4], [6, 5], [2, 6, 2, 4]):
            for mode in seq:
                pkt, env, allbits = synth.packet_of({"MODE": ("int", mode, mode)}, "00000010", 3, None, tail_bits=5)
                exp, _pos = ref.decode_param(t, allbits, 3, env)
                step = monitored(lib.parse_value, pkt)
                ctx.count("evaluations")
                ctx.count("context_history.decodes")
                got = step.value
                if step.exc is not None or float(got) != float(exp.value):
                    ctx.violation(f"context-history/{route}/first-match-lost", f"MODE sequence {seq}: at MODE={mode} the value is {got!r} / {step.exc!r}, "
                                  f"the first listed context whose criteria hold gives {exp.value!r}", {"sequence": seq, "mode": mode, "route": route})
                    break
    ctx.sig("context-history", "overlapping")


def siblings_sharing_a_leading_equality(ctx):
    """sibling containers whose comparison lists start with the SAME equality and differ in a later comparison (same APID, different
    sub-type): each packet goes to the sibling all of whose comparisons hold"""
    import dataclasses
    from vmon.props import c05
    n = 0
    for lit0, lit1 in (("1", "1"), ("1", "01"), ("2", "2")):
        for later in ((("S2", "2", "<"), ("S2", "2", ">=")), (("S2", "0", "=="), ("S2", "0", "!=")), (("S2", "1", "<="), ("S2", "3", "=="))):
            n += 1
            if not ctx.mine(n):
                continue
            doc = c05.tree_doc((-1, -1), (0, 0), (False, False), True)
            conts = []
            for c in doc.containers:
                if c.name in ("K0", "K1"):
                    k = int(c.name[1])
                    ref_, val_, op_ = later[k]
                    crit = (ir.Comparison("S1", (lit0, lit1)[k], "==", False), ir.Comparison(ref_, val_, op_, False))
                    c = dataclasses.replace(c, criteria=crit)
                conts.append(c)
            doc = ir.Doc(doc.types, doc.params, tuple(conts), doc.root, doc.system_name, doc.date)
            c05.exercise(ctx, doc, f"siblings/{lit0}/{lit1}/{later}")
            ctx.count("end_to_end.sibling_documents")


def lookups(ctx, comps, assigns, rng, absent):
    """first-match semantics observed at the PUBLIC boundary: a binary / string parameter type whose length is a lookup
    list is parsed from a packet holding 32 bits; the number of bits consumed (cursor) and the size of the value tell
    which entry was used. (No private method of the library is called.)"""
    from space_packet_parser import packets as P
    from space_packet_parser.xtce import encodings as E
    from space_packet_parser.xtce import parameter_types as T
    n = 0
    for k in (1, 2, 3):
        for combo in itertools.product(range(len(comps)), repeat=k):
            n += 1
            if not ctx.mine(n):
                continue
            # values 0, 8, 16, ...: a looked-up value of 0 is a value, not "no match"
            lk = ir.Lookup(tuple(((comps[i],) if (i + j + n) % 4 else (comps[i], absent), 8 * ((j + n) % 3)) for j, i in enumerate(combo)))
            for route in ("ctor", "xml"):
                if route == "ctor":
                    benc = build.encoding(ir.BinEnc(lk))
                    senc = build.encoding(ir.StrEnc("US-ASCII", lk))
                else:
                    o = render.Opts(explicit=None, rng=rng)
                    benc = E.BinaryDataEncoding.from_xml(xtce_element(render.render_fragment(render.enc_el(ir.BinEnc(lk), o))))
                    senc = E.StringDataEncoding.from_xml(xtce_element(render.render_fragment(render.enc_el(ir.StrEnc("US-ASCII", lk), o))))
                btype, stype = T.BinaryParameterType("B", benc), T.StringParameterType("S", senc)
                ctx.count(f"route.{route}")
                for asg in assigns[::3]:
                    ctx.count("evaluations")
                    ctx.count("form.lookup")
                    for which, ptype in (("binary", btype), ("string", stype)):
                        pkt, env = packet_of(asg)
                        pkt.raw_data = P.RawPacketData(b"ABCD")
                        try:
                            exp = ref.eval_lookup(lk, env)
                        except ref.ModelError:
                            exp = None
                        s = monitored(ptype.parse_value, pkt)
                        used = pkt.raw_data.pos
                        wit = {"lookup": repr(lk), "assignment": asg, "expected_bits": exp, "consumed_bits": used, "value": repr(s.value), "exc": repr(s.exc)}
                        if exp is None:
                            if s.exc is None:
                                ctx.violation(f"lookup/{which}/no-match-returned-value", f"no entry matches but a value of {used} bits was decoded", wit)
                        elif s.exc is not None:
                            ctx.violation(f"lookup/{which}/exception/{type(s.exc).__name__}", f"parse raised {s.exc!r}, the first matching entry gives {exp} bits", wit)
                        elif used != exp or len(s.value.raw_value if which == "string" else s.value) != exp // 8:
                            ctx.violation(f"lookup/{which}/wrong-entry", f"{used} bits consumed, the first matching entry gives {exp}", wit)
                    ctx.sig("lookup", k, route, exp is None)


# ---- tree shapes ----------------------------------------------------------------------------------------------------
def tree_shapes(max_leaves):
    """all AND/OR alternating trees (as nested tuples: 'L' | ('A'|'O', children...)) with <= max_leaves leaves, depth <= 3"""
    def trees(n, op, depth):
        # trees rooted at operator `op` with exactly n leaves
        if depth == 0:
            return
        other = "O" if op == "A" else "A"
        for parts in partitions(n):
            if len(parts) < 2:
                continue
            opts = []
            for p in parts:
                sub = ["L"] if p == 1 else []
                if p >= 2:
                    sub = list(trees(p, other, depth - 1))
                opts.append(sub)
            for combo in itertools.product(*opts):
                yield (op,) + combo
    yield "L"
    for n in range(2, max_leaves + 1):
        for op in "AO":
            seen = set()
            for t in trees(n, op, 3):
                if t not in seen:
                    seen.add(t)
                    yield t


def partitions(n):
    """ordered compositions of n into parts >= 1 (order matters: conditions before/after groups)"""
    if n == 0:
        yield ()
        return
    for first in range(1, n + 1):
        for rest in partitions(n - first):
            yield (first,) + rest


def count_leaves(s):
    return 1 if s == "L" else sum(count_leaves(c) for c in s[1:])


def shape_str(s):
    return "L" if s == "L" else s[0] + "(" + "".join(shape_str(c) for c in s[1:]) + ")"


def fill(s, it, leaves):
    if s == "L":
        return leaves[next(it)]
    kids = tuple(fill(c, it, leaves) for c in s[1:])
    return ir.And(kids) if s[0] == "A" else ir.Or(kids)


def random_tree(rng, leaves, depth, op=None):
    op = op or rng.choice("AO")
    kids = []
    for _ in range(rng.randrange(2, 5)):
        if depth > 1 and rng.random() < 0.4:
            kids.append(random_tree(rng, leaves, depth - 1, "O" if op == "A" else "A"))
        else:
            kids.append(rng.choice(leaves))
    return ir.And(tuple(kids)) if op == "A" else ir.Or(tuple(kids))


def count_leaves_ir(t):
    return 1 if isinstance(t, ir.Condition) else sum(count_leaves_ir(i) for i in t.items)
