"""C01 — end-to-end decoding conforms to the XTCE document for every stream.

Monitor shape T+M: seeded documents (IR) are rendered by my own writer, loaded by the library, and steered packets
are decoded (a) one at a time through parse_ccsds_packet and (b) as byte streams through packet_generator, stepping
the real generator with next() inside a warnings recorder. Every yielded item is compared with the reference
decoder's prediction for that stream position: kind (packet / error object), key sequence, value, raw_value, Python
class; missing or extra items and exceptions are violations. The shape-K contracts of C03/C04/C08 stay armed below.
"""
import io
import os

from vmon import contracts, gen, harness, ir, ref, render, sources
from vmon.libutil import lib_warnings, load_definition, monitored
from vmon.props import c08

LEVEL = "exploration"
SHARDS = {"quick": 16, "thorough": 16}
KINDS = ("integer", "float", "enumerated", "boolean", "string", "binary", "abstime", "reltime")
MUST = [f"fields.{k}" for k in KINDS] + ["directed.packets", "directed.float_equality_neighbours", "directed.default_root_after_override", "documents.serialized_before_decoding", "packets.depth>=2", "stream.items", "stream.error_objects", "outcome.unrecognized",
                                          "outcome.ok", "read_as_int.evaluations", "selfcheck.documents", "mission.packets"]
RULE = ("document = seeded IR (container tree depth<=3, fan-out<=3, nested/shared containers, all eight parameter-type "
        "kinds, every encoding, calibrators, criteria of every form, dynamic lengths) rendered by my writer and loaded "
        "by the library; packets = steered by a forward sampler towards every container plus dead ends and "
        "ambiguities. Each packet is parsed singly and inside streams (source kind rotated bytes/file/scripted "
        "socket; yield_unrecognized_packet_errors both ways) and every decoded field compared with the reference "
        "decoder. distinct_nontrivial = distinct (inheritance depth, nested?, type kind, encoding variant, "
        "length-spec kind / delimitation / charset class, calibrated?, preceded-by-dynamic-field) signatures of "
        "compared user-data fields; header fields are trivial and excluded.")
ASSUMPTIONS = ["documents and packets are drawn within the generator's bounds (depth<=3, fan-out<=3, <=~40 parameters, "
               "packets < 2 kB); shapes outside are not reached",
               "packets for which the model expects an error are only parsed singly (an escaping exception would end a stream)",
               "leading-size strings whose text would run into the padding, and terminator matches involving padding bits, are not compared"]


def compare_stream(ctx, info, defn, raws, outs, kind, yield_unrec, rng, prop="C01", root=None):
    """run packet_generator over the concatenated packets and compare the yielded items with the model"""
    from space_packet_parser import exceptions as X
    from space_packet_parser import packets as P
    # foreign prefix bytes before every packet (skip_header_bytes) and the progress display are exercised on some streams
    k = rng.choice([0, 0, 0, 3, 4]) if root is None else 0
    stream = b"".join(bytes(0x80 | rng.getrandbits(7) for _ in range(k)) + r_ for r_ in raws)
    exp = harness.stream_expectation(outs, True, yield_unrec)
    src = None
    kw = {"yield_unrecognized_packet_errors": yield_unrec}
    if k:
        kw["skip_header_bytes"] = k
        ctx.count("stream.with_prefix")
    progress = rng.random() < 0.2
    if progress:
        kw["show_progress"] = True
    if root is not None:
        kw["root_container_name"] = root
    try:
        if kind == "bytes":
            src = stream
        elif kind == "file":
            src = sources.RecordingFile(stream)
            kw["buffer_read_size_bytes"] = rng.choice([None, 7, 64, 4096])
            if kw["buffer_read_size_bytes"] is None:
                del kw["buffer_read_size_bytes"]
        else:
            sizes, left = [], len(stream)
            while left > 0:
                c = min(left, rng.choice([1, 5, 6, 7, 50, 4096]))
                sizes.append(c)
                left -= c
            src = sources.ScriptedSocket(sources.cut(stream, sizes), closed_by_peer=True)
        import contextlib
        g = defn.packet_generator(src, **kw)
        got = []
        for _ in range(len(raws) + 2):
            with contextlib.redirect_stdout(io.StringIO()) if progress else contextlib.nullcontext():
                s = monitored(next, g)
            if isinstance(s.exc, StopIteration):
                break
            got.append(s)
            if s.exc is not None:
                break
        g.close()
    finally:
        if kind == "socket" and src is not None:
            src.close()
    ctx.count("evaluations")
    ctx.count("stream.runs")
    wit = {"source": kind, "yield_unrecognized": yield_unrec, "n_packets": len(raws), "skip_header_bytes": k, "show_progress": progress,
           "model": [(o.status, o.consumption, o.path[-1]) for o in outs][:30]}
    for pos, s in enumerate(got):
        if s.exc is not None:
            # which packet was being parsed: the first one not accounted for by the items yielded so far
            ctx.violation(f"stream/exception/{type(s.exc).__name__}", f"generator raised {s.exc!r} at item {pos} of a stream whose packets the model decodes", dict(wit, position=pos))
            return
    if len(got) != len(exp):
        ctx.violation(f"stream/{'missing' if len(got) < len(exp) else 'extra'}-items", f"{len(got)} items yielded, model expects {len(exp)}", wit)
        return
    for pos, (s, (what, i)) in enumerate(zip(got, exp)):
        ctx.count("stream.items")
        item, o = s.value, outs[i]
        if what == "error":
            ctx.count("stream.error_objects")
            if not isinstance(item, X.UnrecognizedPacketTypeError):
                ctx.violation("stream/expected-error-object", f"item {pos}: model expects an unrecognized-packet error object, got {type(item).__name__}", dict(wit, position=pos))
                return
            pd = getattr(item, "partial_data", None)
            m = harness.compare_items(pd, o, info) if pd is not None else ("no-partial-data", "error object without partial_data")
            if m:
                ctx.violation("stream/error-object/" + m[0], f"item {pos}: {m[1]}", dict(wit, position=pos, raw=raws[i]))
                return
            continue
        if not isinstance(item, P.CCSDSPacket):
            ctx.violation("stream/expected-packet", f"item {pos}: got {type(item).__name__}", dict(wit, position=pos))
            return
        if bytes(item.raw_data) != raws[i]:
            ctx.violation("stream/position", f"item {pos} is not packet {i} of the stream", dict(wit, position=pos))
            return
        m = harness.compare_items(item, o, info)
        if m:
            ctx.violation("stream/" + m[0], f"item {pos} (packet {i}): {m[1]}", dict(wit, position=pos, raw=raws[i]))
            return
        lw = [w for w in s.warnings if harness.is_length_warning(w)]
        if bool(lw) != (o.consumption != "exact"):
            ctx.violation(f"stream/length-warning/{'missing' if not lw else 'unexpected'}",
                          f"item {pos}: consumption is {o.consumption} (cursor {o.pos} of {8 * len(raws[i])} bits) but length warnings = {len(lw)}",
                          dict(wit, position=pos, raw=raws[i]))
            return


def run_document(ctx, seed_key, profile=None, npackets=25, sample=False):
    rng = ctx.rng("doc", seed_key)
    doc = gen.gen_document(rng, profile)
    info = harness.DocInfo(doc)
    xml = render.render_doc(doc, opts=render.Opts(explicit=None, rng=rng))
    ld = monitored(load_definition, xml)
    ctx.count("selfcheck.documents")
    if ld.exc is not None:
        ctx.violation(f"load/exception/{type(ld.exc).__name__}", f"library could not load a generated document: {ld.exc!r}",
                      {"doc_seed": seed_key, "xml_head": xml[:1500].decode()})
        return
    defn = ld.value
    if isinstance(seed_key, int) and seed_key % 3 == 0:
        # a definition that has been serialized (to_xml_tree / write_xml) still decodes as before
        from vmon.libutil import definition_to_bytes
        monitored(definition_to_bytes, defn)
        ctx.count("documents.serialized_before_decoding")
    raws = gen.gen_packets(rng, doc, npackets, deltas=(0, 0, 0, 0, 1, 2))
    outs = [ref.walk(doc, r) for r in raws]
    if sample:
        ctx.sample({"doc_seed": seed_key, "containers": [(c.name, c.base, c.abstract) for c in doc.containers][:12],
                    "n_params": len(doc.params), "first_packet": raws[0], "model_first": [(n, v.value) for n, v in outs[0].items][:12],
                    "model_status": [(o.status, o.consumption, o.path[-1]) for o in outs][:8]})
    for r, o in zip(raws, outs):
        step, pkt = harness.parse_single(defn, r)
        ctx.count("evaluations")
        if len(o.path) >= 3:
            ctx.count("packets.depth>=2")
        for name, _v in o.items[7:]:
            ctx.count(f"fields.{info.kind[name]}")
        for mech, msg in harness.judge_single(ctx, info, r, step, pkt, o):
            ctx.violation("single/" + mech, msg, {"doc_seed": seed_key, "raw": r, "path": o.path, "model_status": o.status,
                                                  "model_detail": o.detail, "error_at": o.error_at,
                                                  "items": [(n, v.value, v.raw) for n, v in o.items][-6:]})
    good = [(r, o) for r, o in zip(raws, outs) if o.status in ("ok", "unrecognized") and o.consumption in ("exact", "under")
            and not harness.has_dontcare(o)]
    if good:
        kinds = ["bytes", "file", "socket"]
        for j, yu in enumerate((False, True)):
            compare_stream(ctx, info, defn, [g[0] for g in good], [g[1] for g in good],
                           kinds[(hash(seed_key) + j) % 3] if isinstance(seed_key, int) else kinds[j], yu, rng)


MISSIONS = [("jpss/jpss1_geolocation_xtce_v1.xml", "jpss/J01_G011_LZ_2021-04-09T00-00-00Z_V01.DAT1", {}, "CCSDSPacket", 120, 7200),
            ("suda/suda_combined_science_definition.xml", "suda/sciData_2022_130_17_41_53.spl", {"skip_header_bytes": 4}, "CCSDSPacket", 13, 400),
            ("ctim/ctim_xtce_v1.xml", "ctim/ccsds_2021_155_14_39_51", {}, "CCSDSTelemetryPacket", 40, 3000),
            ("idex/idex_combined_science_definition.xml", "idex/sciData_2023_052_14_45_05", {}, "CCSDSPacket", 30, 400)]


def mission_replay(ctx, which):
    """in-situ: the recorded mission files decoded by the model from MY reader's IR of the mission documents; every field
    of every recorded packet is compared with what the library decodes (single parse and generator stream)."""
    import warnings
    from vmon import core, reader
    from space_packet_parser import packets as P
    xml, pk, kw, root, nq, nt = MISSIONS[which]
    base = os.path.join(core.REPO, "tests", "test_data")
    with open(os.path.join(base, xml), "rb") as f:
        G = f.read()
    doc = reader.read_xml(G)
    doc = ir.Doc(doc.types, doc.params, doc.containers, root, doc.system_name, doc.date)
    info = harness.DocInfo(doc)
    with warnings.catch_warnings():
        warnings.simplefilter("ignore")
        defn = load_definition(G, "xtce", root)
    limit = ctx.size(nq, nt)
    raws = []
    with open(os.path.join(base, pk), "rb") as f:
        for i, raw in enumerate(P.ccsds_generator(f, **kw)):
            if i >= limit:
                break
            raws.append(bytes(raw))
    outs = []
    for raw in raws:
        out = ref.walk(doc, raw, root)
        outs.append(out)
        step, pkt = harness.parse_single(defn, raw, root)
        ctx.count("evaluations")
        ctx.count("mission.packets")
        ctx.count(f"mission.{xml.split('/')[0]}.fields", len(out.items))
        for mech, msg in harness.judge_single(ctx, info, raw, step, pkt, out):
            ctx.violation(f"mission/{xml.split('/')[0]}/" + mech, msg, {"document": xml, "raw": raw[:64], "path": out.path})
    good = [(r, o) for r, o in zip(raws, outs) if o.status in ("ok", "unrecognized") and not harness.has_dontcare(o)]
    if good:
        compare_stream(ctx, info, defn, [g[0] for g in good][:400], [g[1] for g in good][:400], "file", True, ctx.rng("m"),
                       root=root)
    ctx.sig("mission", xml)


def run(ctx):
    contracts.arm_reads(ctx)
    contracts.arm_numeric(ctx)
    c08.arm_calibrate(ctx)
    ndocs = ctx.size(400, 15000)
    npk = ctx.size(25, 60)
    for i in range(ndocs):
        if not ctx.mine(i):
            continue
        run_document(ctx, i + 100000 * ctx.seed, npackets=npk, sample=(i < 2))
    for m in range(len(MISSIONS)):
        if ctx.mine(m + 5):
            mission_replay(ctx, m)
    directed_rare(ctx)
    if ctx.shard == 6 % ctx.nshards:
        directed_floats_and_roots(ctx)


def directed_floats_and_roots(ctx):
    """(1) equality criteria on float parameters: packet values that are the neighbouring doubles of the document's value (and values
    within 1e-9 of it) are NOT equal to it - inheritance, context calibrators and != alike. (2) a generator created with another
    root_container_name is used up first; a generator created afterwards without one decodes from the document's own root."""
    import math
    import struct
    from space_packet_parser import packets as P
    from vmon.props.c05 import header_types
    ts, ps = header_types("PKT_APID")
    cc = ir.ContextCal((ir.Comparison("F", "1.5", "==", False),), ir.Poly(((100.0, 0), (1.0, 1))))
    ts += [ir.PType("F_T", "float", ir.FloatEnc(64)), ir.PType("Y_T", "float", ir.IntEnc(8, "unsigned", False, None, (cc,))), ir.PType("Z_T", "integer", ir.IntEnc(16, "unsigned"))]
    ps += [ir.Param("F", "F_T"), ir.Param("Y", "Y_T"), ir.Param("Z", "Z_T")]
    hdr = tuple(("p", p.name) for p in ps[:7])
    doc = ir.Doc(tuple(ts), tuple(ps), (ir.Container("CCSDSPacket", hdr + (("p", "F"),)),
                                        ir.Container("EQ", (("p", "Y"),), "CCSDSPacket", (ir.Comparison("F", "1.5", "==", False),)),
                                        ir.Container("NE", (("p", "Y"), ("p", "Y")), "CCSDSPacket", (ir.Comparison("F", "1.5", "!=", False), ir.Comparison("F", "2.5", "<", False))),
                                        ir.Container("ALT", hdr + (("p", "Z"),))))
    info = harness.DocInfo(doc)
    defn = load_definition(render.render_doc(doc))
    vals = [1.5, math.nextafter(1.5, 2), math.nextafter(1.5, 1), 1.5 * (1 + 4e-10), 1.5 * (1 - 4e-10), 1.5000001, 3.0, -1.5]
    raws = [bytes(P.create_ccsds_packet(struct.pack(">d", v) + b"\x05\x06", apid=9, sequence_count=j)) for j, v in enumerate(vals)]
    outs = [ref.walk(doc, r) for r in raws]
    for r, o, v in zip(raws, outs, vals):
        step, pkt = harness.parse_single(defn, r)
        ctx.count("evaluations")
        ctx.count("directed.float_equality_neighbours")
        ctx.sig("float-equality", o.path[-1] if o.path else None)
        for mech, msg in harness.judge_single(ctx, info, r, step, pkt, o):
            ctx.violation("directed/float-equality/" + mech, f"F={v!r}: " + msg, {"F": repr(v), "model_path": o.path})
            break
    # ---- (2)
    stream = b"".join(raws)
    alt = monitored(lambda: [int(p_["Z"]) for p_ in defn.packet_generator(stream, root_container_name="ALT")])
    want_alt = [int.from_bytes(r[6:8], "big") for r in raws]
    if alt.value != want_alt:
        ctx.violation("directed/root-override/values", f"root_container_name='ALT' gave Z={alt.value} / {alt.exc!r}, expected {want_alt}", {})
    compare_stream(ctx, info, defn, raws, outs, "bytes", False, ctx.rng("roots"))
    ctx.count("directed.default_root_after_override")


def directed_rare(ctx):
    """feature combinations the random generator meets only now and then, driven for certain on every run: the C09 one-feature
    documents (every optional attribute, every length form incl. fractional calibrated references, spline points sharing a raw value,
    wide enumerations ...) decoded end to end and judged against the model, every referenced length value 0..15"""
    from vmon.props.c09 import directed_docs
    for j, (name, doc) in enumerate(directed_docs()):
        if not ctx.mine(j):
            continue
        info = harness.DocInfo(doc)
        rng = ctx.rng("directed", j)
        ld = monitored(load_definition, render.render_doc(doc, opts=render.Opts(explicit=None, rng=rng)))
        if ld.exc is not None:
            ctx.violation(f"load/exception/{type(ld.exc).__name__}", f"directed document {name!r}: {ld.exc!r}", {"document": name})
            continue
        ctx.count("directed.documents")
        raws = list(gen.gen_packets(rng, doc, 12, deltas=(0, 0, 0, 1)))
        for r in raws:
            o = ref.walk(doc, r)
            step, pkt = harness.parse_single(ld.value, r)
            ctx.count("evaluations")
            ctx.count("directed.packets")
            for mech, msg in harness.judge_single(ctx, info, r, step, pkt, o):
                ctx.violation("directed/" + mech, f"{name}: " + msg, {"document": name, "raw": r, "model_status": o.status})
                break
