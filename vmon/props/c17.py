"""C17 — a loaded definition is a consistent object graph; broken documents fail at load.

Monitor shape S (state invariant at a quiescent point) + F (fault injection on the input document):
 (1) after every successful load the object graph is walked: every entry-list / nested-container / parameter-type /
     base-container reference must be THE object registered under that name (identity, not equality), every name is
     registered once, and each container's inheritor list is exactly the multiset of containers naming it as base;
 (2) every single-point corruption of a valid document is loaded: corruptions that leave a dangling, duplicate or cyclic
     structural reference must be rejected at load (any Exception, including RecursionError, is a rejection; a normal
     return is not), benign ones (unreferenced definition deleted, reference re-pointed at another existing name) must
     still load - and the graph invariant is checked again on whatever loads.
"""
import copy
import sys

from vmon import gen, ir, render
from vmon.libutil import load_definition, monitored

LEVEL = "exploration"
SHARDS = {"quick": 16, "thorough": 16}
MUST = ["graph.walks", "valid.nested_twice_before_definition", "valid.unconditional_inheritors", "kind.rename-qualified", "valid.base_container_also_nested", "corrupt.loaded_from_same_path", "graph.entry_kind_checks", "valid.parameter_and_container_share_a_name", "kind.repoint-to-other-kind", "graph.identity_checks", "graph.inheritor_checks", "corrupt.reject-expected", "corrupt.accept-expected",
        "kind.rename-typeref", "kind.rename-paramref", "kind.rename-containerref", "kind.rename-baseref", "kind.dup-type", "kind.dup-param",
        "kind.dup-container-changed", "kind.delete-referenced", "kind.delete-unreferenced", "kind.base-cycle", "kind.nesting-cycle",
        "kind.self-base", "kind.self-nesting", "kind.repoint"]
RULE = ("case = generated document (identity walk of the loaded object graph) x every applicable single-point corruption: "
        "each structural reference renamed to an undefined name / re-pointed at another existing name; each definition "
        "duplicated (identical, with a structural change, or with a change of its descriptive text only); each definition deleted; a base cycle, a nesting cycle, self-base and "
        "self-nesting introduced at each container. Expectation per corruption: reject / accept; the loader's outcome "
        "(exception vs normal return) is compared with it and the graph invariant re-checked on every definition that "
        "loads. distinct_nontrivial = distinct (corruption kind, element kind, referenced?, outcome) signatures; the "
        "uncorrupted document is trivial and excluded.")
ASSUMPTIONS = ["references made from criteria and length specifications are resolved at decode time and are not part of this claim",
               "an identical duplicate of a container is neither required to load nor to be rejected (counted, not judged)",
               "RecursionError is a rejection; the recursion limit is lowered to 1500 while corrupted documents are loaded so that "
               "cyclic documents cannot exhaust the C stack"]


# ---------------------------------------------------------------------------------------------------------------------
# (1) graph invariant
# ---------------------------------------------------------------------------------------------------------------------
_PATH = {"dir": None}


def load_from_same_path(xml, prefix):
    import os
    import tempfile
    from space_packet_parser.xtce.definitions import XtcePacketDefinition
    if _PATH["dir"] is None:
        _PATH["dir"] = tempfile.mkdtemp(prefix="vmon-c17-", dir=os.environ.get("VMON_SCRATCH"))
    path = os.path.join(_PATH["dir"], "definition.xml")
    with open(path, "wb") as f:
        f.write(xml)
    return XtcePacketDefinition.from_xtce(path, xtce_ns_prefix=prefix)


def check_graph(ctx, defn, tag, doc=None):
    """returns list of (mechanism, message)"""
    from space_packet_parser.xtce import containers as SC
    from space_packet_parser.xtce import parameters as PM
    probs = []
    ctx.count("graph.walks")
    conts, params, types = defn.containers, defn.parameters, defn.parameter_types
    for reg, what in ((conts, "container"), (params, "parameter"), (types, "parameter-type")):
        seen = {}
        for key, obj in reg.items():
            if getattr(obj, "name", key) != key:
                probs.append((f"registry/{what}/name-mismatch", f"{what} registered under {key!r} is named {obj.name!r}"))
            if id(obj) in seen:
                probs.append((f"registry/{what}/two-names-one-object", f"{what} object registered as {seen[id(obj)]!r} and {key!r}"))
            seen[id(obj)] = key
    expected_inheritors = {}
    for name, c in conts.items():
        base = c.base_container_name
        if base:
            if base not in conts:
                probs.append(("graph/base-not-registered", f"container {name} names base {base!r} which is not registered"))
            expected_inheritors.setdefault(base, []).append(name)

    def walk(c, depth=0):
        if depth > 50:
            probs.append(("graph/nesting-too-deep", f"nesting deeper than 50 at {c.name}"))
            return
        for entry in c.entry_list:
            ctx.count("graph.identity_checks")
            if isinstance(entry, PM.Parameter):
                if params.get(entry.name) is not entry:
                    probs.append(("graph/identity/parameter", f"entry {entry.name} of {c.name} is not the registered parameter object"))
                t = entry.parameter_type
                if types.get(t.name) is not t:
                    probs.append(("graph/identity/parameter-type", f"type {t.name} of parameter {entry.name} is not the registered type object"))
            elif isinstance(entry, SC.SequenceContainer):
                if conts.get(entry.name) is not entry:
                    probs.append(("graph/identity/nested-container", f"nested container {entry.name} in {c.name} is not the registered container object"))
                walk(entry, depth + 1)
            else:
                probs.append(("graph/entry-class", f"entry of {c.name} has class {type(entry).__name__}"))
    for name, c in conts.items():
        walk(c)
        ctx.count("graph.inheritor_checks")
        got = sorted(c.inheritors)
        want = sorted(expected_inheritors.get(name, []))
        if got != want:
            kind = "duplicated" if len(got) > len(set(got)) else "missing" if len(got) < len(want) else "wrong"
            probs.append((f"graph/inheritors/{kind}", f"inheritors of {name} are {got}, containers naming it as base are {want}"))
    # parameters registered must be used by some container (the model is built from containers) and share type objects
    for pname, p in params.items():
        if types.get(p.parameter_type.name) is not p.parameter_type:
            probs.append(("graph/identity/parameter-type", f"registered parameter {pname} holds a type object that is not the registered one"))
    if doc is not None:
        want_c = {c.name for c in doc.containers}
        if set(conts) != want_c:
            probs.append(("graph/containers-set", f"registered containers {sorted(conts)} != document's {sorted(want_c)}"))
        # every entry refers to an object of the KIND the document names (a parameter and a container may share a name)
        for c in doc.containers:
            lc = conts.get(c.name)
            if lc is None:
                continue
            got_k = [("p" if isinstance(e, PM.Parameter) else "c" if isinstance(e, SC.SequenceContainer) else "?", getattr(e, "name", "?")) for e in lc.entry_list]
            ctx.count("graph.entry_kind_checks", len(got_k))
            if got_k != list(c.entries):
                probs.append(("graph/entry-kinds", f"entry list of {c.name} is {got_k[:8]}, the document lists {list(c.entries)[:8]}"))
    return probs


# ---------------------------------------------------------------------------------------------------------------------
# (2) corruptions on the element tree
# ---------------------------------------------------------------------------------------------------------------------
def sets_of(root):
    tm = root.children[1]
    return tm.children[0], tm.children[1], tm.children[2]


def find_all(e, tag, acc=None):
    acc = [] if acc is None else acc
    if e.tag == tag:
        acc.append(e)
    for c in e.children:
        find_all(c, tag, acc)
    return acc


def corruptions(root, doc, rng, limit):
    """yield (kind, element kind, referenced?, expectation, corrupted tree)"""
    pts0, ps0, cs0 = sets_of(root)
    used_params = {n for c in doc.containers for k, n in c.entries if k == "p"}
    used_types = {p.type for p in doc.params}
    nested_names = {n for c in doc.containers for k, n in c.entries if k == "c"}
    base_names = {c.base for c in doc.containers if c.base}
    out = []

    def fresh():
        r = copy.deepcopy(root)
        return (r,) + sets_of(r)

    # ---- renames to undefined names / re-pointing -----------------------------------------------------------------
    for i, p in enumerate(ps0.children):
        r, pts, ps, cs = fresh()
        ps.children[i].attrs["parameterTypeRef"] = "NoSuch_Type"
        out.append(("rename-typeref", "Parameter", p.attrs["name"] in used_params, "reject", r))
        if p.attrs["name"] in used_params:
            r, pts, ps, cs = fresh()
            ps.children[i].attrs["parameterTypeRef"] = "Types/" + p.attrs["parameterTypeRef"]
            out.append(("rename-qualified", "Parameter@parameterTypeRef", True, "reject", r))
        r, pts, ps, cs = fresh()
        other = rng.choice([t.attrs["name"] for t in pts.children])
        ps.children[i].attrs["parameterTypeRef"] = other
        out.append(("repoint", "Parameter@parameterTypeRef", True, "accept", r))
    for ci, c in enumerate(cs0.children):
        el = find_all(c, "EntryList")[0]
        for ei, e in enumerate(el.children):
            r, pts, ps, cs = fresh()
            tgt = find_all(cs.children[ci], "EntryList")[0].children[ei]
            if e.tag == "ParameterRefEntry":
                tgt.attrs["parameterRef"] = "NoSuchParameter"
                out.append(("rename-paramref", "ParameterRefEntry", True, "reject", r))
                # an undefined name that merely ENDS in a defined one (a path into some other space system)
                r, pts, ps, cs = fresh()
                tgt = find_all(cs.children[ci], "EntryList")[0].children[ei]
                tgt.attrs["parameterRef"] = ("/Elsewhere/", "Spare/", "../")[ei % 3] + e.attrs["parameterRef"]
                out.append(("rename-qualified", "ParameterRefEntry", True, "reject", r))
                r, pts, ps, cs = fresh()
                tgt = find_all(cs.children[ci], "EntryList")[0].children[ei]
                tgt.attrs["parameterRef"] = rng.choice([p.attrs["name"] for p in ps.children])
                out.append(("repoint", "ParameterRefEntry", True, "accept", r))
                # ... and at an existing name of another kind (a container / a parameter type): still no parameter of that name
                cnames = [c_.attrs["name"] for c_ in cs.children if c_.attrs["name"] not in {p.attrs["name"] for p in ps.children}]
                if cnames:
                    r, pts, ps, cs = fresh()
                    tgt = find_all(cs.children[ci], "EntryList")[0].children[ei]
                    tgt.attrs["parameterRef"] = cnames[ei % len(cnames)]      # may be a container defined earlier or later
                    out.append(("repoint-to-other-kind", "ParameterRefEntry->container-name", True, "reject", r))
            else:
                tgt.attrs["containerRef"] = "NoSuchContainer"
                out.append(("rename-containerref", "ContainerRefEntry", True, "reject", r))
                pnames = [p.attrs["name"] for p in ps.children if p.attrs["name"] not in {c_.attrs["name"] for c_ in cs.children}]
                r, pts, ps, cs = fresh()
                tgt = find_all(cs.children[ci], "EntryList")[0].children[ei]
                tgt.attrs["containerRef"] = pnames[ei % len(pnames)]
                out.append(("repoint-to-other-kind", "ContainerRefEntry->parameter-name", True, "reject", r))
        bc = find_all(c, "BaseContainer")
        if bc:
            r, pts, ps, cs = fresh()
            find_all(cs.children[ci], "BaseContainer")[0].attrs["containerRef"] = "NoSuchBase"
            out.append(("rename-baseref", "BaseContainer", True, "reject", r))
            r, pts, ps, cs = fresh()
            bc_ = find_all(cs.children[ci], "BaseContainer")[0]
            bc_.attrs["containerRef"] = "/Elsewhere/" + bc_.attrs["containerRef"]
            out.append(("rename-qualified", "BaseContainer", True, "reject", r))
            r, pts, ps, cs = fresh()
            only_params = [p.attrs["name"] for p in ps.children if p.attrs["name"] not in {c_.attrs["name"] for c_ in cs.children}]
            find_all(cs.children[ci], "BaseContainer")[0].attrs["containerRef"] = only_params[ci % len(only_params)]
            out.append(("repoint-to-other-kind", "BaseContainer->parameter-name", True, "reject", r))
    # ---- duplicates ----------------------------------------------------------------------------------------------------
    for i, t in enumerate(pts0.children):
        r, pts, ps, cs = fresh()
        pts.children.insert(rng.randrange(len(pts.children) + 1), copy.deepcopy(pts.children[i]))
        out.append(("dup-type", t.tag, t.attrs["name"] in used_types, "reject", r))
        # the same NAME defined a second time as a type of another kind (names are unique per set, not per element tag)
        r, pts, ps, cs = fresh()
        other = ir.PType(t.attrs["name"], "float", ir.FloatEnc(32)) if t.tag != "FloatParameterType" else ir.PType(t.attrs["name"], "integer", ir.IntEnc(16))
        pts.children.insert(rng.randrange(len(pts.children) + 1), render.type_el(other, render.Opts()))
        out.append(("dup-type-other-kind", t.tag, t.attrs["name"] in used_types, "reject", r))
    for i, p in enumerate(ps0.children):
        r, pts, ps, cs = fresh()
        ps.children.append(copy.deepcopy(ps.children[i]))
        out.append(("dup-param", "Parameter", p.attrs["name"] in used_params, "reject", r))
    for i, c in enumerate(cs0.children):
        name = c.attrs["name"]
        referenced = name in nested_names or name in base_names
        r, pts, ps, cs = fresh()
        cs.children.insert(rng.randrange(len(cs.children) + 1), copy.deepcopy(cs.children[i]))
        out.append(("dup-container-identical", "SequenceContainer", referenced, "either", r))
        r, pts, ps, cs = fresh()
        dup = copy.deepcopy(cs.children[i])
        el = find_all(dup, "EntryList")[0]
        how = rng.randrange(3)
        if how == 0 and el.children:
            el.children.pop()
        elif how == 1:
            el.children.append(render.E("ParameterRefEntry", {"parameterRef": ps.children[0].attrs["name"]}))
        else:
            dup.attrs["abstract"] = "false" if dup.attrs.get("abstract") == "true" else "true"
        cs.children.insert(rng.randrange(len(cs.children) + 1), dup)
        out.append(("dup-container-changed", "SequenceContainer", referenced, "reject", r))
        # ... and a duplicate whose only difference is its descriptive text: two different definitions under one name
        r, pts, ps, cs = fresh()
        dup = copy.deepcopy(cs.children[i])
        if rng.random() < 0.5:
            dup.attrs["shortDescription"] = (dup.attrs.get("shortDescription") or "") + " (revised)"
        else:
            for ld_ in [ch for ch in dup.children if ch.tag == "LongDescription"]:
                dup.children.remove(ld_)
            dup.children.insert(0, render.E("LongDescription", text="a different long description"))
        cs.children.insert(rng.randrange(len(cs.children) + 1), dup)
        out.append(("dup-container-changed-description", "SequenceContainer", referenced, "reject", r))
    # ---- deletions -------------------------------------------------------------------------------------------------------
    for i, t in enumerate(pts0.children):
        r, pts, ps, cs = fresh()
        del pts.children[i]
        ref_ = t.attrs["name"] in used_types
        out.append(("delete-referenced" if ref_ else "delete-unreferenced", t.tag, ref_, "reject" if ref_ else "accept", r))
    for i, p in enumerate(ps0.children):
        r, pts, ps, cs = fresh()
        del ps.children[i]
        ref_ = p.attrs["name"] in used_params
        out.append(("delete-referenced" if ref_ else "delete-unreferenced", "Parameter", ref_, "reject" if ref_ else "accept", r))
    for i, c in enumerate(cs0.children):
        name = c.attrs["name"]
        ref_ = name in nested_names or name in base_names
        if name == doc.root:
            continue
        r, pts, ps, cs = fresh()
        del cs.children[i]
        out.append(("delete-referenced" if ref_ else "delete-unreferenced", "SequenceContainer", ref_, "reject" if ref_ else "accept", r))
    # ---- cycles -----------------------------------------------------------------------------------------------------------
    names = [c.attrs["name"] for c in cs0.children]
    cm = doc.container_map()
    for i, c in enumerate(cs0.children):
        name = c.attrs["name"]
        r, pts, ps, cs = fresh()
        tgt = cs.children[i]
        for b_ in find_all(tgt, "BaseContainer"):
            tgt.children.remove(b_)
        tgt.children.append(render.E("BaseContainer", {"containerRef": name},
                                     [render.E("RestrictionCriteria", children=[render.E("Comparison", {"parameterRef": "VERSION", "value": "0"})])]))
        out.append(("self-base", "SequenceContainer", True, "reject", r))
        r, pts, ps, cs = fresh()
        find_all(cs.children[i], "EntryList")[0].children.append(render.E("ContainerRefEntry", {"containerRef": name}))
        out.append(("self-nesting", "SequenceContainer", True, "reject", r))
        # base cycle: the chain of bases of `name` is closed by making its root-most ancestor inherit from `name`
        chain = [name]
        x = cm[name]
        while x.base:
            chain.append(x.base)
            x = cm[x.base]
        if len(chain) >= 2:
            top = chain[-1]
            r, pts, ps, cs = fresh()
            tgt = cs.children[names.index(top)]
            tgt.children.append(render.E("BaseContainer", {"containerRef": name},
                                         [render.E("RestrictionCriteria", children=[render.E("Comparison", {"parameterRef": "VERSION", "value": "0"})])]))
            out.append(("base-cycle", "SequenceContainer", True, "reject", r))
        # nesting cycle: name contains other, other contains name
        other = rng.choice([n for n in names if n != name] or [name])
        if other != name:
            r, pts, ps, cs = fresh()
            find_all(cs.children[i], "EntryList")[0].children.append(render.E("ContainerRefEntry", {"containerRef": other}))
            find_all(cs.children[names.index(other)], "EntryList")[0].children.append(render.E("ContainerRefEntry", {"containerRef": name}))
            out.append(("nesting-cycle", "SequenceContainer", True, "reject", r))
    rng.shuffle(out)
    # keep at least one of every kind, then fill up to the limit
    picked, seen = [], set()
    for x in out:
        key = (x[0], x[1], x[2])
        if key not in seen:
            seen.add(key)
            picked.append(x)
    for x in out:
        if len(picked) >= limit:
            break
        if x not in picked:
            picked.append(x)
    return picked


def run(ctx):
    import random
    styles = [("prefix", "xtce"), ("default",), ("none",)]
    for i in range(ctx.size(64, 900)):
        if not ctx.mine(i):
            continue
        rng = random.Random(f"C17/{ctx.seed}/{i}")
        doc = gen.gen_document(rng, gen.Profile(max_depth=3, max_fanout=2, p_nested=0.4, max_entries=3))
        # add one unreferenced parameter + type so that benign deletions exist
        doc = ir.Doc(doc.types + (ir.PType("UNUSED_Type", "integer", ir.IntEnc(8)), ir.PType("UNUSED2_Type", "integer", ir.IntEnc(5))),
                     doc.params + (ir.Param("UNUSED", "UNUSED_Type"),), doc.containers, doc.root, doc.system_name, doc.date)
        if i % 3 == 0:
            # names are per kind: rename one nested container to the name of a parameter (a legal document)
            nested = sorted({n for c in doc.containers for k, n in c.entries if k == "c"})
            pn = [p.name for p in doc.params[7:] if p.name not in {c.name for c in doc.containers}]
            if nested and pn:
                old_n, new_n = nested[0], pn[i % len(pn)]
                ren = lambda n: new_n if n == old_n else n
                doc = ir.Doc(doc.types, doc.params, tuple(ir.Container(ren(c.name), tuple((k, ren(n) if k == "c" else n) for k, n in c.entries),
                                                                     ren(c.base) if c.base else c.base, c.criteria, c.abstract, c.short, c.long)
                                                        for c in doc.containers), doc.root, doc.system_name, doc.date)
                ctx.count("valid.parameter_and_container_share_a_name")
        if i % 3 == 1:
            # a container listed first that embeds the root - a BASE container - and one of its children through ContainerRefEntry:
            # base containers that are also nested must be the one registered object everywhere
            kids = [c.name for c in doc.containers if c.base == doc.root][:1]
            doc = ir.Doc(doc.types, doc.params, (ir.Container("ZZ_Archive", (("c", doc.root),) + tuple(("c", k_) for k_ in kids)),) + doc.containers,
                         doc.root, doc.system_name, doc.date)
            ctx.count("valid.base_container_also_nested")
        if (i // 3) % 2 == 0:
            # listed first: a container that embeds two containers not seen yet, the first of which embeds the second
            # (Packet -> [Block, Stamp, Block], Block -> [Stamp]): every reference is the one registered Stamp / Block object
            pname = doc.params[i % len(doc.params)].name
            doc = ir.Doc(doc.types, doc.params, (ir.Container("ZZ_Packet", (("c", "ZZ_Block"), ("c", "ZZ_Stamp"), ("c", "ZZ_Block"))),
                                                 ir.Container("ZZ_Block", (("c", "ZZ_Stamp"), ("p", pname))),
                                                 ir.Container("ZZ_Stamp", (("p", pname),))) + doc.containers, doc.root, doc.system_name, doc.date)
            ctx.count("valid.nested_twice_before_definition")
        if i % 3 == 2:
            # one or two containers inherit UNCONDITIONALLY (BaseContainer without RestrictionCriteria): they are inheritors all the same
            import dataclasses
            kids = [c for c in doc.containers if c.base is not None]
            chosen = {c.name for c in kids[i % 2::2][:2]}
            if chosen:
                doc = dataclasses.replace(doc, containers=tuple(dataclasses.replace(c, criteria=None) if c.name in chosen else c for c in doc.containers))
                ctx.count("valid.unconditional_inheritors")
        root = render.doc_el(doc, render.Opts(explicit=None, rng=rng))
        style = styles[i % 3]
        pfx = style[1] if style[0] == "prefix" else None
        st = monitored(load_from_same_path if i % 2 else load_definition, render.serialize(root, style), pfx)
        ctx.count("evaluations")
        if st.exc is not None:
            ctx.violation(f"valid-document/load/{type(st.exc).__name__}", repr(st.exc), {"doc": i})
            continue
        for mech, msg in check_graph(ctx, st.value, "valid", doc):
            ctx.violation("valid/" + mech, msg, {"doc": i})
        old = sys.getrecursionlimit()
        try:
            sys.setrecursionlimit(1500)
            for kind, elkind, referenced, expect, tree in corruptions(root, doc, rng, ctx.size(70, 300)):
                xml = render.serialize(tree, style)
                if ctx.counters["evaluations"] % 3 == 0:
                    # the corrupted document replaces the valid one ON DISK under the same path and is loaded by path
                    s = monitored(load_from_same_path, xml, pfx)
                    ctx.count("corrupt.loaded_from_same_path")
                else:
                    s = monitored(load_definition, xml, pfx)
                ctx.count("evaluations")
                ctx.count(f"kind.{kind}")
                ctx.count(f"corrupt.{expect}-expected")
                outcome = "rejected" if s.exc is not None else "loaded"
                ctx.sig(kind, elkind, referenced, outcome)
                wit = {"doc": i, "corruption": kind, "element": elkind, "referenced": referenced, "style": style,
                       "exception": repr(s.exc)[:300] if s.exc else None}
                if expect == "reject" and s.exc is None:
                    ctx.violation(f"accepted-broken-document/{kind}/{elkind}/{'referenced' if referenced else 'unreferenced'}",
                                  f"a document with corruption {kind} on {elkind} loaded without error", wit)
                if expect == "accept" and s.exc is not None:
                    ctx.violation(f"rejected-benign-document/{kind}/{elkind}/{type(s.exc).__name__}",
                                  f"benign change {kind} on {elkind} made loading fail: {s.exc!r}", wit)
                if s.exc is None:
                    for mech, msg in check_graph(ctx, s.value, kind):
                        ctx.violation(f"after-{kind}/" + mech, msg, wit)
        finally:
            sys.setrecursionlimit(old)
        if i < 2:
            ctx.sample({"doc": i, "containers": len(doc.containers), "params": len(doc.params), "corruption_kinds": sorted({k for k in ctx.counters if k.startswith('kind.')})[:20]})


def _cleanup():
    import shutil
    if _PATH["dir"] is not None:
        shutil.rmtree(_PATH["dir"], ignore_errors=True)


import atexit  # noqa: E402
atexit.register(_cleanup)
