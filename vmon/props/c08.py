"""C08 — calibration, enumeration and boolean derivation follow XTCE; raw value kept.

Monitor shape M + K: parameter types described in the IR are built by both routes (constructors; from_xml of an
element rendered by my writer), ParameterType.parse_value is executed on prepared packets (field bits chosen by the
harness, earlier parameters present for context criteria) and compared with the reference decoder: exact-rational
calibrators with a condition-aware tolerance, precedence context list > default > none, FloatParameter for every
calibrated result, CalibrationError outside a non-extrapolating spline, enum/bool derived from the RAW value, and
raw_value == the uncalibrated encoded value. A postcondition on Spline/PolynomialCalibrator.calibrate (icontract)
re-checks every calibrate() call the library makes, including those made while other workloads run.
"""
import icontract

from vmon import bits, build, ir, ref, render, synth
from vmon.contracts import MonitorViolation
from vmon.libutil import monitored, xtce_element

LEVEL = "exploration"
SHARDS = {"quick": 16, "thorough": 16}
MUST = ["bool.string_or_binary_encoded", "bool.empty_raw_value", "spline.large_raw_coordinates", "spline.collinear_points", "time.shares_encoding_element", "enum.every_raw", "enum.unlisted_negative_raw", "spline.order0", "spline.order1", "poly", "context.first-of-several", "context.none-match-default", "context.none-match-nodefault",
        "enum.listed", "enum.unlisted", "bool", "time.scaled", "query.at-last-knot", "query.at-first-knot", "query.outside-noextrap",
        "route.ctor", "route.xml", "calibrate.contract_evaluations", "enum.wide"]
RULE = ("case = (parameter type IR, earlier parameter values, field bits, bit offset, construction route); parse_value's "
        "result is compared with the reference decoder for derived value (|lib-exact| <= 1e-9*max(1, sum|terms|)), "
        "class, raw_value and cursor; expected failures must fail (CalibrationError for out-of-range splines). "
        "Splines: 1-6 knots, orders 0/1, both extrapolate settings, queried at EVERY knot, both end points, between "
        "knots, just outside and far outside; polynomials: 0-5 terms, exponents -2..4, coefficient magnitudes "
        "1e-12..1e12; context lists of 0-3 calibrators with overlapping criteria (incl. self-referencing) with and "
        "without default; enumerated/boolean types over calibrated encodings; time types with scale/offset; seven small "
        "enumeration shapes x widths {1,2,3,4,8} x {unsigned, signed, twosComplement} x EVERY raw value of the encoding. "
        "distinct_nontrivial = distinct (type kind, calibrator kind, source, query position class, extrapolate, "
        "encoding kind, route) signatures; an uncalibrated integer is the trivial case and is excluded.")
ASSUMPTIONS = ["non-finite raw floats through a calibrator are not compared (class only)",
               "spline raw coordinates are strictly increasing (the property's stated domain)"]

_state = {}


def arm_calibrate(ctx):
    """K: postcondition on the calibrators' calibrate(); derives the calibrator from the object's public attributes
    (points/order/extrapolate/coefficients); if those are not observable the evaluation is counted as unobservable."""
    from space_packet_parser.xtce import calibrators as K
    if _state:
        _state["ctx"] = ctx
        return
    _state["ctx"] = ctx

    def to_ir(self):
        try:
            if isinstance(self, K.PolynomialCalibrator):
                return ir.Poly(tuple((float(c.coefficient), int(c.exponent)) for c in self.coefficients))
            return ir.Spline(tuple((float(p.raw), float(p.calibrated)) for p in self.points), int(self.order), bool(self.extrapolate))
        except Exception:  # noqa: BLE001
            return None

    def post(self, uncalibrated_value, result):
        c = _state["ctx"]
        cal = to_ir(self)
        if cal is None or not isinstance(uncalibrated_value, (int, float)):
            c.count("calibrate.unobservable")
            return True
        if isinstance(cal, ir.Spline) and any(b_[0] <= a[0] for a, b_ in zip(cal.points, cal.points[1:])):
            c.count("calibrate.out_of_domain")
            return True
        try:
            ex, sc = ref.calibrate(cal, uncalibrated_value)
        except (ref.ModelError, ref.DontCare, ZeroDivisionError):
            c.count("calibrate.out_of_domain")
            return True
        c.count("calibrate.contract_evaluations")
        if not isinstance(result, (int, float)) or not ref.close_enough(float(result), ex, sc):
            c.violation(f"calibrate-contract/{type(self).__name__}/value",
                        f"{type(self).__name__}.calibrate({uncalibrated_value!r}) -> {result!r}, exact {float(ex)!r}",
                        {"calibrator": repr(cal), "x": uncalibrated_value, "got": result, "exact": float(ex)})
        return True

    for cls in (K.SplineCalibrator, K.PolynomialCalibrator):
        cls.calibrate = icontract.ensure(post, error=MonitorViolation)(cls.calibrate)


class TypeFactory:
    def __init__(self, ctx):
        self.ctx = ctx
        self.rng = ctx.rng("factory")

    def make(self, t: ir.PType, route):
        from space_packet_parser.xtce import parameter_types as T
        self.ctx.count(f"route.{route}")
        if route == "ctor":
            return build.ptype(t)
        el = xtce_element(render.render_fragment(render.type_el(t, render.Opts(explicit=None, rng=self.rng))))
        cls = getattr(T, ir.KIND_TAG[t.kind])
        return cls.from_xml(el)


def raw_to_bits(enc, raw):
    """encode a raw value into the field bits of a numeric encoding (big-endian only here)"""
    if isinstance(enc, (ir.StrEnc, ir.BinEnc)):
        return bits.bitstr(raw)          # raw = the buffer bytes themselves
    if isinstance(enc, ir.IntEnc):
        n = enc.bits
        v = raw if raw >= 0 else raw + (1 << n)
        fb = bits.to_bits(v, n)
    else:
        import struct
        fb = bits.bitstr(struct.pack(">" + {16: "e", 32: "f", 64: "d"}[enc.bits], raw))
    return bits.reverse_bytes(fb) if enc.little else fb


def qclass(cal, x):
    if not isinstance(cal, ir.Spline):
        return "zero" if x == 0 else "neg" if x < 0 else "pos"
    xs = [p[0] for p in cal.points]
    if x < xs[0]:
        return "below"
    if x > xs[-1]:
        return "above"
    if x == xs[-1]:
        return "at-last-knot"
    if x == xs[0]:
        return "at-first-knot"
    return "at-inner-knot" if x in xs else "between"


def calname(cal):
    return "none" if cal is None else "poly" if isinstance(cal, ir.Poly) else f"spline{cal.order}{'x' if cal.extrapolate else ''}"


def run_case(ctx, F, t: ir.PType, assign, raw, offset, route, rng, tags):
    """decode one field; compare with model"""
    from space_packet_parser import exceptions as X
    enc = t.enc
    fb = raw_to_bits(enc, raw)
    pkt, env, allbits = synth.packet_of(assign, fb, offset, rng, tail_bits=rng.randrange(0, 9))
    libtype = tags.get("_lib") or F.make(t, route)
    ctx.count("evaluations")
    wit = {"type": repr(t)[:900], "assign": assign, "raw": raw, "offset": offset, "route": route}
    try:
        exp, newpos = ref.decode_param(t, allbits, offset, env)
        err = None
    except ref.CalibrationExpected as e:
        exp, err = None, ("calibration", e)
    except ref.ModelError as e:
        exp, err = None, ("any", e)
    except ref.DontCare:
        return
    step = monitored(libtype.parse_value, pkt)
    feat = mechanism(t, env, raw, tags)
    if err is not None:
        if step.exc is None:
            ctx.violation(f"expected-failure-returned-value/{err[1].kind}/{feat}",
                          f"model: {err[1]}; library returned {step.value!r}", dict(wit, got=step.value))
        elif err[0] == "calibration" and not isinstance(step.exc, X.CalibrationError):
            ctx.violation(f"wrong-exception-class/{type(step.exc).__name__}/{feat}",
                          f"outside a non-extrapolating spline a CalibrationError is due, got {step.exc!r}", wit)
        return
    if step.exc is not None:
        ctx.violation(f"exception/{type(step.exc).__name__}/{feat}", f"parse_value raised {step.exc!r}; model value {exp.value!r} (raw {exp.raw!r})",
                      dict(wit, expected=exp.value))
        return
    why = synth.compare_value(step.value, exp)
    if why:
        kindw = why.split(" ")[0]
        ctx.violation(f"mismatch/{kindw}/{feat}", why, dict(wit, got=step.value, got_raw=getattr(step.value, "raw_value", None),
                                                              expected=exp.value, expected_raw=exp.raw))
    elif pkt.raw_data.pos != newpos:
        ctx.violation(f"cursor/{feat}", f"cursor {pkt.raw_data.pos} != {newpos}", wit)
    lw = [w for w in step.warnings if issubclass(w.category, UserWarning)]
    ctx.count("warnings.observed", len(lw))


def mechanism(t, env, raw, tags):
    """features of the failing case: which calibrator the model applies and where the query sits on it"""
    enc = t.enc
    applied, source = None, "raw"
    try:
        for i, cc in enumerate(getattr(enc, "context_cals", ())):
            if ref.eval_criteria(cc.criteria, env, current_raw=raw):
                applied, source = cc.cal, "context"
                break
        else:
            if t.kind in ("abstime", "reltime") and (t.scale is not None or t.offset is not None):
                applied, source = ir.Poly(((0.0, 0),)), "time-scale"
            elif getattr(enc, "default_cal", None) is not None:
                applied, source = enc.default_cal, "default"
    except (ref.ModelError, ref.DontCare):
        source = "criteria-error"
    kind = t.kind if t.kind in ("enumerated", "boolean") else "numeric"
    calk = "none" if applied is None else "poly" if isinstance(applied, ir.Poly) else f"spline{applied.order}"
    q = qclass(applied, raw) if isinstance(applied, ir.Spline) else ("falsy-raw" if not raw else "-")
    return f"{kind}/{calk}/{source}/{q}"


def spline_queries(cal, integer):
    xs = [p[0] for p in cal.points]
    qs = set(xs)
    for a, b_ in zip(xs, xs[1:]):
        qs.add((a + b_) / 2 if not integer else (a + b_) // 2)
        qs.add(a + (b_ - a) / 4 if not integer else a + 1)
    lo, hi = xs[0], xs[-1]
    qs |= {lo - 1, hi + 1, lo - 1000, hi + 1000}
    if not integer:
        qs |= {lo - 1e-9 * max(1, abs(lo)), hi + 1e-9 * max(1, abs(hi)), lo - 0.5, hi + 0.5}
    return sorted(qs)


def run(ctx):
    arm_calibrate(ctx)
    rng = ctx.rng("c08")
    F = TypeFactory(ctx)
    routes = ("ctor", "xml")
    item = 0

    # ---- 1. splines: every knot, both ends, between, outside ---------------------------------------------------
    for nk in range(1, 7):
        for order in (0, 1):
            if order == 1 and nk < 2:
                continue
            for extrap in (False, True):
                for variant in range(ctx.size(6, 300)):
                    item += 1
                    if not ctx.mine(item):
                        continue
                    integer = variant % 2 == 0
                    if integer:
                        xs = sorted(rng.sample(range(-2000, 2000, 4), nk))
                        enc0 = ir.IntEnc(16, rng.choice(["signed", "twosComplement"]), False)
                        xs = [float(x) for x in xs]
                    else:
                        xs = sorted({round(rng.uniform(-50, 50), 3) for _ in range(nk * 3)})[:nk]
                        if len(xs) < nk:
                            continue
                        enc0 = ir.FloatEnc(64)
                    ys = [round(rng.uniform(-1e3, 1e3), 4) if rng.random() < 0.8 else float(rng.choice([0, -1, 1e9])) for _ in xs]
                    cal = ir.Spline(tuple(zip(xs, ys)), order, extrap)
                    for source in ("default", "context"):
                        if source == "default":
                            enc = type(enc0)(enc0.bits, enc0.encoding, False, cal, ())
                        else:
                            cc = ir.ContextCal((ir.Comparison("MODE", "1", "==", rng.random() < 0.5),), cal)
                            enc = type(enc0)(enc0.bits, enc0.encoding, False, None, (cc,))
                        t = ir.PType("T", rng.choice(["integer", "float"]) if integer else "float", enc, unit=rng.choice([None, "V"]))
                        libs = {r: F.make(t, r) for r in routes}
                        for qi, q in enumerate(spline_queries(cal, integer)):
                            q = int(q) if integer else float(q)
                            if integer and not (-32768 <= q <= 32767):
                                continue
                            qc = qclass(cal, q)
                            ctx.count(f"spline.order{order}")
                            ctx.count(f"query.{qc}")
                            if qc in ("below", "above") and not extrap:
                                ctx.count("query.outside-noextrap")
                            route = routes[qi % 2]
                            tags = {"kind": t.kind, "cal": calname(cal), "source": source, "q": qc, "_lib": libs[route]}
                            ctx.sig(t.kind, calname(cal), source, qc, type(enc).__name__, route)
                            run_case(ctx, F, t, {"MODE": ("int", 1, 1)}, q, rng.randrange(8), route, rng, tags)
                    if item < 40:
                        ctx.sample({"spline": repr(cal), "queries": [float(x) for x in spline_queries(cal, integer)][:12]})

    # ---- 2. polynomials ---------------------------------------------------------------------------------------------
    for i in range(ctx.size(2000, 600_000)):
        item += 1
        if not ctx.mine(item):
            continue
        nt = rng.randrange(0, 6)
        terms = tuple((rng.choice([1, -1]) * 10 ** rng.uniform(-12, 12) if rng.random() < 0.7 else float(rng.randrange(-5, 6)),
                       rng.choice([0, 1, 2, 3, 4, 1, 0, -1, -2])) for _ in range(nt))
        cal = ir.Poly(terms)
        if rng.random() < 0.5:
            enc = ir.IntEnc(rng.choice([8, 12, 16, 32]), rng.choice(["unsigned", "signed"]), False, cal, ())
            raw = rng.choice([0, 1, -1, (1 << (enc.bits - 1)) - 1, rng.randrange(0, 1 << (enc.bits - 1))])
            if enc.encoding == "unsigned":
                raw = abs(raw)
        else:
            enc = ir.FloatEnc(rng.choice([32, 64]), "IEEE754", False, cal, ())
            import struct
            raw = rng.choice([0.0, -0.0, 1.0, -2.5, rng.uniform(-1e3, 1e3)])
            if enc.bits == 32:
                raw = struct.unpack(">f", struct.pack(">f", raw))[0]
        t = ir.PType("T", rng.choice(["integer", "float"]), enc)
        route = routes[i % 2]
        ctx.count("poly")
        ctx.sig(t.kind, "poly", nt, qclass(cal, raw), type(enc).__name__, route, min(e for _, e in terms) < 0 if terms else "empty")
        run_case(ctx, F, t, {}, raw, rng.randrange(8), route, rng,
                 {"kind": t.kind, "cal": f"poly{nt}" if nt == 0 else "poly", "source": "default", "q": qclass(cal, raw)})

    # ---- 3. context lists: precedence -----------------------------------------------------------------------------
    crit_pool = [(ir.Comparison("MODE", "1"),), (ir.Comparison("MODE", "0", "!="),), (ir.Comparison("MODE", "2", "<", False),),
                 (ir.Comparison("MODE", "1"), ir.Comparison("GAIN", "0.5", ">=")), (ir.Comparison("SELF", "100", ">", False),),
                 (ir.Comparison("SELF", "0", "==", False),),
                 ir.BoolExpr(ir.Or((ir.Condition("MODE", "==", right_value="3", right_cal=False), ir.Condition("GAIN", "<", right_param="MODE")))),
                 (ir.Comparison("MODE", "7"),), (ir.Comparison("LABEL", "ON"),), (ir.Comparison("LABEL", "1", "==", False),)]
    assigns = [{"MODE": ("int", m, m), "GAIN": ("float", g, gi), "LABEL": ("str", lab, li)}
               for m in (0, 1, 2, 3) for g, gi in ((0.0, 0), (0.5, 1), (2.0, 4)) for lab, li in (("ON", 1), ("OFF", 0))]
    for i in range(ctx.size(1000, 300_000)):
        item += 1
        if not ctx.mine(item):
            continue
        ncc = rng.randrange(0, 4)
        ccs = tuple(ir.ContextCal(rng.choice(crit_pool), ir.Poly(((float(100 * (k + 1)), 0), (1.0, 1)))) for k in range(ncc))
        default = rng.choice([None, ir.Poly(((-1.0, 0), (2.0, 1))), ir.Spline(((0.0, 5.0), (255.0, 6.0)), 1, True)])
        enc = ir.IntEnc(8, "unsigned", False, default, ccs)
        kind = rng.choice(["integer", "float", "enumerated", "boolean", "abstime"])
        t = ir.PType("SELF_T", kind, enc,
                     enumeration=tuple((v, f"L{v}") for v in range(0, 256, 3)) if kind == "enumerated" else (),
                     scale=rng.choice([None, 0.5]) if kind == "abstime" else None,
                     offset=rng.choice([None, 10.0]) if kind == "abstime" else None,
                     epoch="TAI" if kind == "abstime" else None)
        libs = {r: F.make(t, r) for r in routes}
        for ai, asg in enumerate(rng.sample(assigns, 8)):
            raw = rng.choice([0, 1, 3, 99, 100, 101, 150, 255])
            env = {k: ref.Val(v[1], v[2], v[0]) for k, v in asg.items()}
            try:
                holds = [ref.eval_criteria(cc.criteria, env, current_raw=raw) for cc in ccs]
            except (ref.ModelError, ref.DontCare):
                holds = None
            if kind in ("integer", "float", "abstime") and holds is not None:
                if sum(holds) >= 2 or (sum(holds) == 1 and ncc >= 2):
                    ctx.count("context.first-of-several")
                if not any(holds):
                    has_def = default is not None or (kind == "abstime" and (t.scale is not None or t.offset is not None))
                    ctx.count("context.none-match-default" if has_def else "context.none-match-nodefault")
            if kind == "enumerated":
                ctx.count("enum.listed" if raw % 3 == 0 else "enum.unlisted")
            if kind == "boolean":
                ctx.count("bool")
            if kind == "abstime" and (t.scale is not None or t.offset is not None):
                ctx.count("time.scaled")
            route = routes[ai % 2]
            src = "none" if holds is None else ("ctx%d" % holds.index(True)) if any(holds) else ("default" if default else "raw")
            ctx.sig(kind, ncc, src, calname(default), route)
            run_case(ctx, F, t, asg, raw, rng.randrange(8), route, rng,
                     {"kind": kind, "cal": f"ctx{ncc}+{calname(default)}", "source": src, "q": "falsy-raw" if raw == 0 else "-", "_lib": libs[route]})

    # ---- 4. enum / bool over float encodings, signed ints, unlisted values -------------------------------------------
    for i in range(ctx.size(500, 100_000)):
        item += 1
        if not ctx.mine(item):
            continue
        cal = rng.choice([None, ir.Poly(((1.0, 0), (3.0, 1)))])
        if rng.random() < 0.5:
            enc = ir.IntEnc(rng.choice([1, 3, 8, 16]), rng.choice(["unsigned", "signed"]), False, cal, ())
            lo = -(1 << (enc.bits - 1)) if enc.encoding == "signed" else 0
            hi = (1 << (enc.bits - 1)) - 1 if enc.encoding == "signed" else (1 << enc.bits) - 1
            vals = sorted({lo, hi, 0, min(hi, 1), rng.randrange(lo, hi + 1)})
            raw = rng.choice(vals + [rng.randrange(lo, hi + 1)])
        else:
            enc = ir.FloatEnc(32, "IEEE754", rng.random() < 0.3, cal, ())
            vals = [0.0, 1.0, -1.0, 2.5]
            raw = rng.choice(vals + [3.0])
        kind = rng.choice(["enumerated", "boolean"])
        t = ir.PType("T", kind, enc, enumeration=tuple((v, f"LBL_{j}") for j, v in enumerate(vals)) if kind == "enumerated" else ())
        route = routes[i % 2]
        if kind == "enumerated":
            ctx.count("enum.listed" if raw in vals else "enum.unlisted")
        else:
            ctx.count("bool")
        ctx.sig(kind, type(enc).__name__, enc.encoding, calname(cal), raw in vals, route, "falsy" if not raw else "truthy")
        run_case(ctx, F, t, {}, raw, rng.randrange(8), route, rng,
                 {"kind": kind, "cal": calname(cal), "source": "raw", "q": "falsy-raw" if not raw else "-"})

    # ---- 4b. small enumerations x EVERY raw value of the encoding (listed values non-negative only / dense / with gaps / ----
    # negative only / mixed), signed and unsigned: unlisted raws - incl. negative ones and ones beyond the largest label - fail
    shapes = {"dense0": lambda lo, hi: list(range(0, min(hi, 2) + 1)), "dense0-5": lambda lo, hi: list(range(0, min(hi, 5) + 1)),
              "gaps": lambda lo, hi: [v for v in (0, 2, 3, 7) if v <= hi], "single-zero": lambda lo, hi: [0],
              "negative-only": lambda lo, hi: [v for v in (-1, -2, lo) if v >= lo], "mixed": lambda lo, hi: sorted({lo, -1, 0, 1, hi} & set(range(lo, hi + 1))),
              "top": lambda lo, hi: [hi, hi - 1]}
    for bits_ in (1, 2, 3, 4, 8):
        for encoding in ("unsigned", "signed", "twosComplement"):
            lo = -(1 << (bits_ - 1)) if encoding != "unsigned" else 0
            hi = (1 << (bits_ - 1)) - 1 if encoding != "unsigned" else (1 << bits_) - 1
            for sname, mk in shapes.items():
                item += 1
                if not ctx.mine(item):
                    continue
                vals = sorted(set(v for v in mk(lo, hi) if lo <= v <= hi))
                if not vals:
                    continue
                t = ir.PType("T", "enumerated", ir.IntEnc(bits_, encoding), None, tuple((v, f"S{j}") for j, v in enumerate(vals)))
                route = routes[item % 2]
                lib = F.make(t, route)
                for raw in range(lo, hi + 1):
                    ctx.count("enum.listed" if raw in vals else "enum.unlisted")
                    ctx.count("enum.every_raw")
                    if raw < 0 and raw not in vals:
                        ctx.count("enum.unlisted_negative_raw")
                    ctx.sig("enumerated", "every-raw", sname, encoding, raw in vals, "neg" if raw < 0 else "zero" if raw == 0 else "pos")
                    run_case(ctx, F, t, {}, raw, (item + raw) % 8, route, rng, {"_lib": lib, "kind": "enumerated", "q": f"every-raw/{sname}"})
    ctx.exhaustive_space("7 enumeration shapes x widths {1,2,3,4,8} x {unsigned, signed, twosComplement} x every raw value", 1)

    # ---- 4c. booleans over string and binary encodings: the truthiness of the RAW value (the whole buffer), not of the decoded text:
    #          an empty text in a non-empty buffer (terminator first, leading size 0) is true; an all-NUL buffer is a non-empty buffer
    sb_cases = [(ir.StrEnc("UTF-8", 24, "00"), b"\x00AB"), (ir.StrEnc("UTF-8", 24, "00"), b"AB\x00"), (ir.StrEnc("UTF-16BE", 32, "0000"), b"\x00\x00\x00A"),
                (ir.StrEnc("US-ASCII", 24, None, 8), b"\x00AB"), (ir.StrEnc("US-ASCII", 24, None, 8), b"\x08A\x00"), (ir.StrEnc("UTF-8", 16), b"\x00\x00"),
                (ir.StrEnc("UTF-8", 16), b"ok"), (ir.BinEnc(16), b"\x00\x00"), (ir.BinEnc(16), b"\x00\x01"), (ir.BinEnc(8), b"\x00")]
    for si, (enc, buf) in enumerate(sb_cases):
        for route in routes:
            item += 1
            if not ctx.mine(item):
                continue
            t = ir.PType("T", "boolean", enc)
            ctx.count("bool.string_or_binary_encoded")
            ctx.sig("boolean", type(enc).__name__, si, route)
            run_case(ctx, F, t, {}, buf, rng.randrange(8), route, rng, {"kind": "boolean", "q": "string-or-binary-encoded"})
    # an EMPTY raw value (a field of zero bits: fixed size 0, or a computed length of 0) is false
    for si, (enc, assign) in enumerate([(ir.BinEnc(0), {}), (ir.BinEnc(ir.DynLen("LEN", False, 8, None)), {"LEN": ("int", 0, 0)}),
                                        (ir.BinEnc(ir.DynLen("LEN", False, 8, None)), {"LEN": ("int", 2, 2)})]):
        for route in routes:
            item += 1
            if not ctx.mine(item):
                continue
            t = ir.PType("T", "boolean", enc)
            ctx.count("bool.empty_raw_value")
            ctx.sig("boolean", "empty-raw", si, route)
            run_case(ctx, F, t, assign, b"\x01\x00" if si == 2 else b"", rng.randrange(8), route, rng, {"kind": "boolean", "q": "empty-raw"})
    # ---- 4d. first-order splines whose raw coordinates are huge compared with the segment width (a 48-bit counter, a 32-bit
    #          time tag): interpolation at and between the points keeps the accuracy of the point values --------------------------
    for base, widths_, bits_ in ((2.8e14, (100, 1500, 40), 64), (4.0e9, (7, 300, 2), 32), (1.0e12, (1000, 1, 5000), 48)):
        xs = [base]
        for w_ in widths_:
            xs.append(xs[-1] + w_)
        ys = [1.0, 250.0, 3.0, -77.5]
        for order in (0, 1):
            sp = ir.Spline(tuple(zip(xs, ys)), order, True)
            t = ir.PType("T", "float", ir.IntEnc(bits_, "unsigned", False, sp, ()))
            for route in routes:
                item += 1
                if not ctx.mine(item):
                    continue
                lib = F.make(t, route)
                for q in [int(x) for x in xs] + [int(xs[0]) + 1, int(xs[1]) - 1, int(xs[1]) + 3, int(xs[2]) + 1, int(xs[3]) - 1, int(xs[3]) + 10, int(xs[0]) - 10]:
                    ctx.count("spline.large_raw_coordinates")
                    ctx.sig("spline", "large-coordinates", order, route)
                    run_case(ctx, F, t, {}, q, rng.randrange(8), route, rng, {"_lib": lib, "kind": "numeric", "q": "large-coordinates"})

    # ---- 4e. splines with runs of exactly collinear points (evenly sized steps): every point is still a step of a zero-order spline
    for pts in (((0.0, 0.0), (10.0, 10.0), (20.0, 20.0), (30.0, 30.0), (40.0, 15.0)), ((0.0, 5.0), (4.0, 5.0), (8.0, 5.0), (12.0, 9.0)),
                ((-20.0, 40.0), (-10.0, 20.0), (0.0, 0.0), (10.0, -20.0), (20.0, -40.0), (21.0, 7.0))):
        for order in (0, 1):
            for extrap in (False, True):
                sp = ir.Spline(pts, order, extrap)
                t = ir.PType("T", "float", ir.IntEnc(16, "signed", False, sp, ()))
                for route in routes:
                    item += 1
                    if not ctx.mine(item):
                        continue
                    lib = F.make(t, route)
                    for q in sorted({int(x) + dx for x, _ in pts for dx in (-1, 0, 1, 5)}):
                        ctx.count("spline.collinear_points")
                        ctx.sig("spline", "collinear", order, extrap, route)
                        run_case(ctx, F, t, {}, q, rng.randrange(8), route, rng, {"_lib": lib, "kind": "numeric", "q": "collinear-points", "cal": calname(sp)})
    # ---- 4f. one document in which a time type with scale/offset and a plain numeric type spell the SAME encoding element (both
    #          declaration orders): the time type's linear scaling belongs to the time type alone ------------------------------
    if ctx.shard == 2 % ctx.nshards:
        from space_packet_parser import packets as P
        from vmon import harness, render
        from vmon.libutil import load_definition
        from vmon.props.c05 import header_types
        for nm, enc, body in (("float32", ir.FloatEnc(32, "IEEE754", False), b"\x3f\xc0\x00\x00" * 2), ("uint16", ir.IntEnc(16, "unsigned"), b"\x12\x34\x00\x07"),
                              ("int8", ir.IntEnc(8, "signed"), b"\xfe\x05")):
            for time_first in (True, False):
                ts, ps = header_types("PKT_APID")
                tt = ir.PType("T_T", "abstime", enc, "s", scale=0.5, offset=10.0)
                vt = ir.PType("V_T", "float" if nm == "float32" else "integer", enc)
                types = tuple(ts) + ((tt, vt) if time_first else (vt, tt))
                doc = ir.Doc(types, tuple(ps) + (ir.Param("T", "T_T"), ir.Param("V", "V_T")),
                             (ir.Container("CCSDSPacket", tuple(("p", p.name) for p in ps[:7]) + ((("p", "T"), ("p", "V")) if time_first else (("p", "V"), ("p", "T")))),))
                info = harness.DocInfo(doc)
                defn = load_definition(render.render_doc(doc))
                raw = bytes(P.create_ccsds_packet(body))
                step, pkt = harness.parse_single(defn, raw)
                out = ref.walk(doc, raw)
                ctx.count("evaluations")
                ctx.count("time.shares_encoding_element")
                ctx.sig("time", "shares-encoding-element", nm, time_first)
                for mech, msg in harness.judge_single(ctx, info, raw, step, pkt, out):
                    ctx.violation(f"time-shares-encoding-element/{nm}/{mech}", msg, {"encoding": nm, "time_type_first": time_first})
    # ---- 5. enum / bool must not depend on calibrators that cannot be evaluated for the raw value ---------------------
    bad_cals = [ir.Spline(((2.0, 1.0), (5.0, 2.0)), 0, False), ir.Spline(((2.0, 1.0), (5.0, 2.0)), 1, False),
                ir.Poly(((1.0, -1),)), ir.Poly(((3.0, -2), (1.0, 0)))]
    for bi, cal in enumerate(bad_cals):
        for as_context in (False, True):
            for kind in ("enumerated", "boolean"):
                item += 1
                if not ctx.mine(item):
                    continue
                cc = (ir.ContextCal((ir.Comparison("MODE", "1"),), cal),) if as_context else ()
                enc = ir.IntEnc(4, "unsigned", False, None if as_context else cal, cc)
                t = ir.PType("T", kind, enc, enumeration=tuple((v, f"E{v}") for v in range(16)) if kind == "enumerated" else ())
                for raw in (0, 1, 2, 5, 6, 15):
                    for route in routes:
                        ctx.count("enum.listed" if kind == "enumerated" else "bool")
                        ctx.sig(kind, "uncomputable-calibrator", calname(cal), as_context, route, raw == 0)
                        run_case(ctx, F, t, {"MODE": ("int", 1, 1)}, raw, rng.randrange(8), route, rng, {})

    # ---- 6. wide integer enumerations: listed values that a double cannot hold must stay distinct keys --------------------
    big = [2 ** 53 + 1, 2 ** 53 + 2, 2 ** 63 - 1, 2 ** 63 + 5, 0xFFFFFFFFFFFFFFFF, 0x1ACFFC1D1ACFFC1D, 7]
    t = ir.PType("T", "enumerated", ir.IntEnc(64, "unsigned"), None, tuple((v, f"K{j}") for j, v in enumerate(big)))
    ts = ir.PType("T", "enumerated", ir.IntEnc(64, "twosComplement"), None, ((-(2 ** 62) - 1, "NEG"), (-(2 ** 53) - 1, "NEG53"), (2 ** 62 + 1, "POS")))
    for tt in (t, ts):
        for route in routes:
            item += 1
            if not ctx.mine(item):
                continue
            lib = F.make(tt, route)
            vals = [v for v, _ in tt.enumeration]
            for v in vals + [vals[0] + 1 if vals[0] + 1 not in vals else vals[0] + 3, vals[-1] - 1]:
                ctx.count("enum.listed" if v in vals else "enum.unlisted")
                ctx.count("enum.wide")
                ctx.sig("enumerated", "wide-int", tt.enc.encoding, route, v in vals)
                run_case(ctx, F, tt, {}, v, rng.randrange(8), route, rng, {"_lib": lib})

