"""C15 — serialization is deterministic and stable under repeated write/load cycles.

Monitors: (T) W(D) == W(D) byte for byte in one process, and across processes started with different PYTHONHASHSEED
(sub-processes recompute the digests of the same documents); G1 = W(D), G2 = W(L(G1)), G3 = W(L(G2)): G2 == G3;
(M) G1 parsed by a plain parser is well-formed and every element lies in D's XTCE namespace;
(S) writing does not alter the definition: deep object-graph snapshot before/after and a __setattr__ write log on
every definition class while to_xml_tree runs.
"""
import hashlib
import json
import os
import subprocess
import sys

from vmon import build, gen, ir, reader, render
from vmon.libutil import definition_to_bytes, load_definition, monitored
from vmon.props import c11

LEVEL = "exploration"
SHARDS = {"quick": 16, "thorough": 16}
MUST = ["write.twice", "environment.non_utc_time_zone", "write.after_namespace_change", "directed.documents", "write.via_write_xml", "cycle.g2g3_files", "write.after_parsing_packets", "write.after_other_writes", "history.variant_headers", "cycle.g2g3", "namespace.checked", "crossprocess.documents", "immutability.snapshots", "route.xml", "route.objects",
        "style.prefix", "style.default", "style.none"]
RULE = ("case = generated definition (both build routes; namespace conventions prefix xtce / custom prefix / default "
        "namespace / none) with a fixed header date: written twice in-process, again after it decoded packets, and again after other definitions (with / without a SpaceSystem name, other header "
        "values, other namespace styles) were written in between, written in two further processes with "
        "PYTHONHASHSEED 1 and 4242, cycled write->load->write->load->write in memory and (one definition in five) through write_xml files; checks: byte identity, G2==G3, "
        "well-formedness + namespace of every element, no write to the definition during serialization. "
        "distinct_nontrivial = distinct (route, namespace style, document feature set) signatures; a header-only "
        "document is trivial and excluded.")
ASSUMPTIONS = ["the header date is fixed (the writer fills in now() when it is absent)",
               "cross-process runs regenerate the same documents from the same seeds under a different hash seed"]

STYLES = [("prefix", "xtce"), ("default",), ("none",), ("prefix", "custom"), ("prefix", "xtce")]


def obtain(doc, route, style, rng):
    """-> monitored Step whose value is the library definition"""
    if route == "xml":
        G = render.render_doc(doc, ns_style=style, opts=render.Opts(explicit=None, rng=rng))
        return monitored(load_definition, G, style[1] if style[0] == "prefix" else None), (style[1] if style[0] == "prefix" else None)
    if style[0] == "prefix":
        ns = {style[1]: render.XTCE_URI, "xsi": "http://www.w3.org/2001/XMLSchema-instance"}
        return monitored(build.definition, doc, ns, style[1]), style[1]
    if style[0] == "default":
        return monitored(build.definition, doc, {None: render.XTCE_URI}, None), None
    return monitored(build.definition, doc, {}, None), None


def digest_list(seed, ids):
    """digests of W(D) for the documents `ids` (used in-process and by the cross-process children)"""
    import random
    out = {}
    for i in ids:
        rng = random.Random(f"C15/{seed}/doc/{i}")
        doc = gen.gen_document(rng)
        for route in ("xml", "objects"):
            style = STYLES[i % len(STYLES)]
            st, _ = obtain(doc, route, style, random.Random(f"C15/{seed}/render/{i}"))
            if st.exc is not None:
                out[f"{i}/{route}"] = "load-error:" + type(st.exc).__name__
                continue
            w = monitored(definition_to_bytes, st.value)
            out[f"{i}/{route}"] = hashlib.sha256(w.value).hexdigest() if w.exc is None else "write-error:" + type(w.exc).__name__
    return out


def run(ctx):
    import random
    if ctx.shard % 2 == 1:
        # every second worker lives in a time zone that is not UTC (the documents' header dates are naive ISO timestamps)
        import os as _os
        import time as _time
        _os.environ["TZ"] = ("MST7", "CET-1CEST", "NST3:30")[(ctx.shard // 2) % 3]
        _time.tzset()
        ctx.count("environment.non_utc_time_zone")
    c11.arm_setattr(ctx)
    ids = [i for i in range(ctx.size(256, 20000)) if ctx.mine(i)]
    mine = {}
    pool = []     # (tag, definition, its first serialization): re-written later, after other definitions have been written
    # after the generated documents: the directed one-feature documents of C09 (spline points sharing a raw value, every optional
    # attribute, every length form ...), numbered from DIRECTED upwards
    from vmon.props.c09 import directed_docs
    DIRECTED = 10 ** 6
    dd = directed_docs()
    todo = list(ids) + [DIRECTED + j for j in range(len(dd)) if ctx.mine(j)]
    for i in todo:
        rng = random.Random(f"C15/{ctx.seed}/doc/{i}")
        if i >= DIRECTED:
            doc = dd[i - DIRECTED][1]
            ctx.count("directed.documents")
        else:
            doc = gen.gen_document(rng)
        if i % 4 == 3 and i < DIRECTED:
            # documents differ in their SpaceSystem name / header too: no name at all, other names, other header values
            import dataclasses
            doc = dataclasses.replace(doc, system_name=(None, "S-%d" % i, "")[(i // 4) % 3], version="%d.%d" % (i % 7, i % 3),
                                      validation=("Working", "Draft", "Unknown")[i % 3])
            ctx.count("history.variant_headers")
        style = STYLES[i % len(STYLES)]
        ctx.count(f"style.{style[0]}")
        from vmon.props.c09 import features
        fs = sorted(features(doc))
        for route in ("xml", "objects"):
            ctx.count(f"route.{route}")
            st, prefix = obtain(doc, route, style, random.Random(f"C15/{ctx.seed}/render/{i}"))
            ctx.count("evaluations")
            wit = {"doc": i, "route": route, "style": style}
            if st.exc is not None:
                ctx.violation(f"{route}/obtain/{type(st.exc).__name__}", repr(st.exc), wit)
                continue
            D = st.value
            if fs:
                ctx.sig(route, style[0], *fs[:10])
            with c11.Immut(ctx, D, f"to_xml ({route})"):
                w1 = monitored(definition_to_bytes, D)
                w2 = monitored(definition_to_bytes, D)
            if w1.exc is not None:
                ctx.violation(f"{route}/write/{type(w1.exc).__name__}", repr(w1.exc), wit)
                continue
            ctx.count("write.twice")
            G1 = w1.value
            if i % 4 != 3 and i < DIRECTED:
                mine[f"{i}/{route}"] = hashlib.sha256(G1).hexdigest()
            pool.append((f"{i}/{route}", D, G1))
            if w2.exc is not None or w2.value != G1:
                ctx.violation(f"{route}/nondeterministic/same-process", "writing the same definition twice gave different bytes", wit)
            # ... also when the definition has been USED in between: decode a few packets (steered into its containers, so that
            # restriction criteria, context matches and lookups are evaluated), then write again
            if i % 2 == 0:
                from vmon import harness
                prng = random.Random(f"C15/{ctx.seed}/packets/{i}")
                used = 0
                for raw in gen.gen_packets(prng, doc, 6):
                    st_, _ = harness.parse_single(D, raw)
                    used += 1
                w3 = monitored(definition_to_bytes, D)
                ctx.count("write.after_parsing")
                ctx.count("write.after_parsing_packets", used)
                if w3.exc is not None or w3.value != G1:
                    ctx.violation(f"{route}/nondeterministic/after-parsing", f"writing the definition again after it decoded {used} packets gives different bytes"
                                  + (f" ({w3.exc!r})" if w3.exc is not None else ""),
                                  dict(wit, first_diff=first_diff(G1, w3.value) if w3.exc is None else None))
            # a definition may be moved to another XTCE namespace between writes (set .ns / .xtce_schema_uri / .xtce_ns_prefix):
            # every element of the next document lies in the NEW namespace, and moving back reproduces the first document
            if route == "objects" and style[0] != "none" and i % 3 == 0:
                old_ns, old_uri, old_pfx = D.ns, D.xtce_schema_uri, getattr(D, "xtce_ns_prefix", None)
                new_uri = "http://www.omg.org/space/xtce"
                try:
                    D.ns = {"q": new_uri}
                    D.xtce_schema_uri = new_uri
                    if hasattr(D, "xtce_ns_prefix"):
                        D.xtce_ns_prefix = "q"
                    wn = monitored(definition_to_bytes, D)
                finally:
                    D.ns, D.xtce_schema_uri = old_ns, old_uri
                    if hasattr(D, "xtce_ns_prefix"):
                        D.xtce_ns_prefix = old_pfx
                wb = monitored(definition_to_bytes, D)
                ctx.count("write.after_namespace_change")
                if wn.exc is None:
                    try:
                        nss2 = reader.element_namespaces(wn.value)
                        if nss2 != {new_uri}:
                            ctx.violation(f"{route}/namespace/after-namespace-change", f"after moving the definition to {new_uri!r} the written elements lie in {nss2}", wit)
                    except Exception as ex:  # noqa: BLE001
                        ctx.violation(f"{route}/not-well-formed/after-namespace-change/{type(ex).__name__}", repr(ex), wit)
                if wb.exc is not None or wb.value != G1:
                    ctx.violation(f"{route}/nondeterministic/after-namespace-round-trip", "moving the definition to another namespace and back changes what it writes", wit)
            # the same through the file-writing entry point: write_xml(path) twice -> identical files; file cycle G2 == G3
            if i % 5 == 0:
                via_files(ctx, D, prefix, route, wit)
            # well-formed + namespaces
            try:
                nss = reader.element_namespaces(G1)
                ctx.count("namespace.checked")
                want = None if style[0] == "none" else render.XTCE_URI
                if nss != {want}:
                    ctx.violation(f"{route}/namespace/{style[0]}", f"elements of the written document lie in namespaces {nss}, expected only {want!r}", wit)
            except Exception as ex:  # noqa: BLE001
                ctx.violation(f"{route}/not-well-formed/{type(ex).__name__}", f"written XML does not parse: {ex!r}", wit)
                continue
            # cycles
            l1 = monitored(load_definition, G1, prefix)
            if l1.exc is not None:
                ctx.violation(f"{route}/cycle/reload-1/{type(l1.exc).__name__}", repr(l1.exc), wit)
                continue
            g2 = monitored(definition_to_bytes, l1.value)
            l2 = monitored(load_definition, g2.value, prefix) if g2.exc is None else g2
            g3 = monitored(definition_to_bytes, l2.value) if l2.exc is None else l2
            if g3.exc is not None:
                ctx.violation(f"{route}/cycle/{type(g3.exc).__name__}", f"cycle failed: {g3.exc!r}", wit)
                continue
            ctx.count("cycle.g2g3")
            if g2.value != g3.value:
                ctx.violation(f"{route}/cycle/g2-ne-g3", "the second and third generation documents differ", dict(wit, first_diff=first_diff(g2.value, g3.value)))
        if i < 2:
            ctx.sample({"doc": i, "style": style, "G1_sha256": mine.get(f"{i}/xml"), "features": fs[:8]})
        if len(pool) >= 24 or i == todo[-1]:
            write_history(ctx, pool, random.Random(f"C15/{ctx.seed}/history/{i}"))
            pool.clear()
    # ---- the documents bundled with the repository (fixed date assigned through the public attribute) ---------------------
    bundled(ctx)
    # ---- cross-process determinism -----------------------------------------------------------------------------------
    for hs in ("1", "4242"):
        env = dict(os.environ, PYTHONHASHSEED=hs)
        p = subprocess.run([sys.executable, "-m", "vmon.props.c15", str(ctx.seed), json.dumps(ids)], capture_output=True, text=True,
                           env=env, timeout=3600)
        if p.returncode != 0:
            from vmon.core import HarnessError
            raise HarnessError("cross-process child failed: " + p.stderr[-800:])
        other = json.loads(p.stdout.strip().splitlines()[-1])
        for k, v in mine.items():
            ctx.count("crossprocess.documents")
            if other.get(k) != v:
                ctx.violation(f"{k.split('/')[1]}/nondeterministic/cross-process", f"document {k}: digest differs under PYTHONHASHSEED={hs}", {"doc": k, "hashseed": hs})


def via_files(ctx, D, prefix, route, wit):
    import pathlib
    import tempfile
    from space_packet_parser.xtce.definitions import XtcePacketDefinition
    d = tempfile.mkdtemp(prefix="vmon-c15-", dir=os.environ.get("VMON_SCRATCH"))
    try:
        paths = [pathlib.Path(d) / f"g{k}.xml" for k in range(4)]
        a = monitored(D.write_xml, paths[0])
        # the second target already exists and holds a LONGER file (an older, bigger definition): writing replaces it
        paths[1].write_bytes(definition_to_bytes(D) + b"<!-- " + b"x" * 5000 + b" -->\n")
        b = monitored(D.write_xml, paths[1])
        ctx.count("write.via_write_xml")
        if a.exc is not None or b.exc is not None:
            ctx.violation(f"{route}/write_xml/{type(a.exc or b.exc).__name__}", f"write_xml raised {(a.exc or b.exc)!r}", wit)
            return
        g1a, g1b = paths[0].read_bytes(), paths[1].read_bytes()
        if g1a != g1b:
            ctx.violation(f"{route}/nondeterministic/write_xml-twice", "write_xml of the same definition to two files gave different bytes",
                          dict(wit, first_diff=first_diff(g1a, g1b)))
        l1 = monitored(XtcePacketDefinition.from_xtce, paths[0], xtce_ns_prefix=prefix)
        if l1.exc is not None:
            ctx.violation(f"{route}/cycle/write_xml-reload/{type(l1.exc).__name__}", repr(l1.exc), wit)
            return
        l1.value.write_xml(paths[2])
        l2 = monitored(XtcePacketDefinition.from_xtce, str(paths[2]), xtce_ns_prefix=prefix)
        if l2.exc is not None:
            ctx.violation(f"{route}/cycle/write_xml-reload-2/{type(l2.exc).__name__}", repr(l2.exc), wit)
            return
        l2.value.write_xml(paths[3])
        ctx.count("cycle.g2g3_files")
        if paths[2].read_bytes() != paths[3].read_bytes():
            ctx.violation(f"{route}/cycle/g2-ne-g3/files", "the second and third generation FILES differ",
                          dict(wit, first_diff=first_diff(paths[2].read_bytes(), paths[3].read_bytes())))
    finally:
        import shutil
        shutil.rmtree(d, ignore_errors=True)


def write_history(ctx, pool, rng):
    """W(D) must give the same bytes whatever was written in between: every pooled definition is written again in
    reversed and in shuffled order (definitions with and without a name, of all namespace styles, interleaved)"""
    for order in ("reversed", "shuffled"):
        seq = list(reversed(pool)) if order == "reversed" else rng.sample(pool, len(pool))
        for tag, D, G1 in seq:
            w = monitored(definition_to_bytes, D)
            ctx.count("write.after_other_writes")
            if w.exc is not None or w.value != G1:
                ctx.violation(f"{tag.split('/')[1]}/nondeterministic/after-other-writes",
                              f"definition {tag} written again after other definitions were written gives different bytes"
                              + (f" ({w.exc!r})" if w.exc is not None else ""),
                              {"doc": tag, "order": order, "first_diff": first_diff(G1, w.value) if w.exc is None else None})
                return


def bundled(ctx):
    from vmon import core
    base = os.path.join(core.REPO, "tests", "test_data")
    docs_ = [("test_xtce.xml", "xtce"), ("test_xtce_default_namespace.xml", None), ("test_xtce_no_namespace.xml", None),
             ("jpss/jpss1_geolocation_xtce_v1.xml", "xtce"), ("jpss/contrived_inheritance_structure.xml", "xtce"),
             ("suda/suda_combined_science_definition.xml", "xtce"), ("ctim/ctim_xtce_v1.xml", "xtce"),
             ("idex/idex_combined_science_definition.xml", "xtce")]
    import warnings
    for i, (rel, prefix) in enumerate(docs_):
        if not ctx.mine(i + 2):
            continue
        with open(os.path.join(base, rel), "rb") as f:
            G = f.read()
        with warnings.catch_warnings():
            warnings.simplefilter("ignore")
            st = monitored(load_definition, G, prefix)
            if st.exc is not None:
                ctx.violation(f"bundled/load/{type(st.exc).__name__}", f"{rel}: {st.exc!r}", {"document": rel})
                continue
            D = st.value
            D.date = "2024-01-01T00:00:00"
            with c11.Immut(ctx, D, f"to_xml (bundled {rel})"):
                w1, w2 = monitored(definition_to_bytes, D), monitored(definition_to_bytes, D)
            ctx.count("evaluations")
            ctx.count("bundled.documents")
            wit = {"document": rel}
            if w1.exc is not None:
                ctx.violation(f"bundled/write/{type(w1.exc).__name__}", f"{rel}: {w1.exc!r}", wit)
                continue
            if w2.exc is not None or w1.value != w2.value:
                ctx.violation("bundled/nondeterministic/same-process", f"{rel}: two writes differ", wit)
            l1 = monitored(load_definition, w1.value, prefix)
            g2 = monitored(definition_to_bytes, l1.value) if l1.exc is None else l1
            l2 = monitored(load_definition, g2.value, prefix) if g2.exc is None else g2
            g3 = monitored(definition_to_bytes, l2.value) if l2.exc is None else l2
            if g3.exc is not None:
                ctx.violation(f"bundled/cycle/{type(g3.exc).__name__}", f"{rel}: cycle failed: {g3.exc!r}", wit)
            elif g2.value != g3.value:
                ctx.violation("bundled/cycle/g2-ne-g3", f"{rel}: second and third generation differ", dict(wit, first_diff=first_diff(g2.value, g3.value)))
            ctx.sig("bundled", rel)


def first_diff(a, b):
    n = next((i for i, (x, y) in enumerate(zip(a, b)) if x != y), min(len(a), len(b)))
    return {"offset": n, "a": a[max(0, n - 60):n + 60].decode(errors="replace"), "b": b[max(0, n - 60):n + 60].decode(errors="replace")}


if __name__ == "__main__":
    print(json.dumps(digest_list(int(sys.argv[1]), json.loads(sys.argv[2]))))
