"""C11 — packets are parsed independently; generators and definitions do not interfere.

Monitor shapes T (history) + S (state invariant) + F (schedule injection):
 (a) stream == concatenation of solo results: the items packet_generator yields for a stream are compared, in order,
     with what parsing each packet on its own gives (library-solo through parse_ccsds_packet on a fresh packet, plus
     the generator's documented filter rules) AND with the reference model, for all 8 option combinations;
 (b) any number of generators created from one definition may be advanced in any interleaving: every generator's
     output sequence must equal the sequence it produces when run alone - all interleavings of 3 generators x 3 items
     (1680 schedules), round-robin, random, and real threads with a tiny switch interval; generators with
     combine_segmented_packets=True (per-generator reassembly state) are included;
 (c) parsing never modifies the definition: a deep structural snapshot of the definition's object graph and its
     to_xml bytes are taken before and after, and __setattr__ on every definition class is logged while parsing.
"""
import itertools
import sys
import threading

from vmon import docs, gen, harness, ir, ref, render, synth
from vmon.libutil import definition_to_bytes, lib_warnings, load_definition, monitored
from vmon.props import c12

LEVEL = "exploration"
SHARDS = {"quick": 16, "thorough": 16}
MUST = ["streams", "options.combos_seen", "solo.packets", "solo.unrecognized", "solo.flagged", "solo.framed_object_parses", "streams.inspected_after_exhaustion", "interleave.calibrator_history", "interleave.error_suspension", "failed_packet.then_good_packets", "solo.recomputed", "options.root_override_interleaved", "options.headers_only_with_combine", "interleavings.exhaustive",
        "interleavings.random", "interleavings.threads", "interleave.segmented", "immutability.snapshots", "setattr.monitored_classes"]
RULE = ("(a) streams of 5-40 generated packets mixing several APIDs x {recognised, unrecognised (dead end / ambiguous), "
        "longer than consumed, shorter than consumed} under all 8 combinations of parse_bad_pkts, "
        "yield_unrecognized_packet_errors, ccsds_headers_only: yielded items == per-packet solo results in stream order "
        "(solo = fresh packet from the bytes, and also the framer's own raw packet objects each wrapped and parsed twice); "
        "(b) schedules: ALL 1680 interleavings of 3 generators x 3 items, round-robin and seeded random schedules for 2-6 "
        "generators x up to 40 items, 4 real threads each owning a generator over the shared definition with "
        "sys.setswitchinterval(1e-6), a generator created with a root_container_name override advanced together with a default one; (c) deep snapshot + to_xml bytes before/after and a __setattr__ write log. "
        "distinct_nontrivial = distinct (check kind, option combination, packet-class mix, schedule class) signatures; "
        "a single-generator run over recognised packets with default options is trivial and excluded.")
ASSUMPTIONS = ["a next() call on a small packet that has not returned after 180 s of wall-clock time is blocked for good (it normally takes "
               "milliseconds): the only wall-clock verdict in the suite, needed because a deadlock has no other observable",
               "packets on which solo parsing raises an exception other than UnrecognizedPacketTypeError are not put into streams "
               "(an escaping exception ends a generator by design)",
               "each thread owns its generator, packets and records; only the definition is shared (read-only)"]


# ---------------------------------------------------------------------------------------------------------------------
# (c) immutability monitors
# ---------------------------------------------------------------------------------------------------------------------
_writes = []
_armed = {"on": False, "classes": 0}


def arm_setattr(ctx):
    if _armed["classes"]:
        return
    from space_packet_parser.xtce import calibrators, comparisons, containers, definitions, encodings, parameter_types, parameters
    classes = set()
    for mod in (calibrators, comparisons, containers, definitions, encodings, parameter_types, parameters):
        for v in vars(mod).values():
            if isinstance(v, type) and v.__module__ == mod.__name__ and not issubclass(v, tuple) and not issubclass(v, BaseException):
                classes.add(v)
    for cls in classes:
        orig = cls.__setattr__

        def make(orig, cls):
            def __setattr__(self, name, value):
                if _armed["on"] and not name.startswith("_"):
                    # public, meaning-bearing attributes only: a private memo that does not change the definition's
                    # meaning is not "modifying the definition" (its effects, if any, show up in the behavioural checks)
                    _writes.append((cls.__name__, name))
                return orig(self, name, value)
            return __setattr__
        try:
            cls.__setattr__ = make(orig, cls)
            _armed["classes"] += 1
        except (TypeError, AttributeError):
            pass
    ctx.count("setattr.monitored_classes", _armed["classes"])


def snapshot(obj, seen=None, depth=0):
    """deep structural snapshot of an object graph (ids replaced by visit order, so equal structure => equal snapshot)"""
    if seen is None:
        seen = {}
    if isinstance(obj, (str, bytes, int, float, bool, type(None))):
        return obj
    if id(obj) in seen:
        return ("ref", seen[id(obj)])
    seen[id(obj)] = len(seen)
    if depth > 60:
        return ("deep",)
    if isinstance(obj, dict):
        return ("dict", [(snapshot(k, seen, depth + 1), snapshot(v, seen, depth + 1)) for k, v in obj.items()])
    if isinstance(obj, (list, tuple, set, frozenset)):
        return (type(obj).__name__, [snapshot(v, seen, depth + 1) for v in obj])
    if callable(obj) and not hasattr(obj, "__dict__"):
        return ("callable", getattr(obj, "__qualname__", "?"))
    d = getattr(obj, "__dict__", None)
    if d is None:
        return ("obj", type(obj).__name__)
    if callable(obj):
        # closures (linear adjusters): capture their cell contents
        cells = [snapshot(c.cell_contents, seen, depth + 1) for c in (getattr(obj, "__closure__", None) or ()) if _cell_ok(c)]
        return ("fn", getattr(obj, "__qualname__", "?"), cells)
    return ("obj", type(obj).__name__, [(k, snapshot(v, seen, depth + 1)) for k, v in d.items() if not k.startswith("_")])


def _cell_ok(c):
    try:
        c.cell_contents
        return True
    except ValueError:
        return False


class Immut:
    def __init__(self, ctx, defn, tag):
        self.ctx, self.defn, self.tag = ctx, defn, tag

    def __enter__(self):
        self.before = snapshot(self.defn)
        self.xml_before = monitored(definition_to_bytes, self.defn)
        _writes.clear()
        _armed["on"] = True
        return self

    def __exit__(self, *exc):
        _armed["on"] = False
        self.ctx.count("immutability.snapshots")
        after = snapshot(self.defn)
        if _writes:
            cls, name = _writes[0]
            self.ctx.violation(f"definition-written/setattr/{cls}.{name}", f"{len(_writes)} attribute writes on definition objects while parsing ({self.tag}); first: {cls}.{name}",
                               {"writes": _writes[:10], "tag": self.tag})
        if after != self.before:
            self.ctx.violation(f"definition-changed/snapshot/{diff_path(self.before, after)}", f"the definition's object graph changed while parsing ({self.tag})", {"tag": self.tag})
        xml_after = monitored(definition_to_bytes, self.defn)
        if self.xml_before.exc is None and (xml_after.exc is not None or xml_after.value != self.xml_before.value):
            self.ctx.violation("definition-changed/to_xml", f"to_xml output differs after parsing ({self.tag})", {"tag": self.tag})
        return False


def diff_path(a, b, path=""):
    if type(a) is not type(b):
        return path or "root"
    if isinstance(a, tuple) and a and isinstance(a[0], str) and a[0] in ("obj", "dict", "list", "tuple", "fn", "set"):
        if a[0] == "obj" and len(a) == 3 and len(b) == 3:
            if a[1] != b[1]:
                return path
            da, db = dict(a[2]), dict(b[2])
            for k in da:
                if k not in db:
                    return f"{path}/{a[1]}.{k}"
                if da[k] != db[k]:
                    return diff_path(da[k], db[k], f"{path}/{a[1]}.{k}")
            for k in db:
                if k not in da:
                    return f"{path}/{a[1]}.{k}"
        return path or "container"
    return path or "value"


# ---------------------------------------------------------------------------------------------------------------------
# (a) stream == solo
# ---------------------------------------------------------------------------------------------------------------------
def plain_item(item):
    """comparable summary of a yielded item"""
    from space_packet_parser import exceptions as X
    from space_packet_parser import packets as P
    if isinstance(item, X.UnrecognizedPacketTypeError):
        pd = item.partial_data
        return ("error", tuple((k, type(v).__name__, repr(synth_plain(v)), repr(synth_plain(v.raw_value))) for k, v in (pd or {}).items()),
                bytes(pd.raw_data) if pd is not None and hasattr(pd, "raw_data") else None)
    if isinstance(item, P.CCSDSPacket):
        return ("packet", tuple((k, type(v).__name__, repr(synth_plain(v)), repr(synth_plain(v.raw_value))) for k, v in item.items()),
                bytes(item.raw_data))
    if isinstance(item, P.RawPacketData):
        return ("raw", bytes(item))
    return ("other", type(item).__name__)


def synth_plain(v):
    for t in (float, int, str, bytes):
        if isinstance(v, t):
            return t(v)
    return v


def solo_result(defn, raw, raw_object=None):
    """parse one packet on its own: ('packet', summary, flagged) | ('error', summary) | ('exception', class).
    raw_object: a RawPacketData object (e.g. one the framer yielded, possibly parsed before) to wrap instead of fresh bytes"""
    from space_packet_parser import exceptions as X
    if raw_object is None:
        step, pkt = harness.parse_single(defn, raw)
    else:
        from space_packet_parser import packets as P
        step = monitored(lambda: defn.parse_ccsds_packet(P.CCSDSPacket(raw_data=raw_object)))
    if isinstance(step.exc, X.UnrecognizedPacketTypeError):
        return ("error", plain_item(step.exc))
    if step.exc is not None:
        return ("exception", type(step.exc).__name__)
    return ("packet", plain_item(step.value), step.value.raw_data.pos != 8 * len(raw))


def expected_from_solo(solos, raws, parse_bad, yield_unrec, headers_only):
    out = []
    for s, raw in zip(solos, raws):
        if headers_only:
            out.append(("raw", raw))
        elif s[0] == "error":
            if yield_unrec:
                out.append(s[1])
        elif s[0] == "packet":
            if s[2] and not parse_bad:
                continue
            out.append(s[1])
    return out


def run_stream(defn, stream, deferred=False, **kw):
    """deferred: the yielded objects are collected first and looked at only after the generator has finished (list(gen) and a
    report afterwards): what was yielded stays what it was"""
    g = defn.packet_generator(stream, **kw)
    items, objs = [], []
    for _ in range(len(stream) // 7 + 3):
        s = monitored(next, g)
        if s.exc is not None:
            if not isinstance(s.exc, StopIteration):
                items.append(("exception", type(s.exc).__name__, str(s.exc)[:200]))
            break
        if deferred:
            objs.append(s.value)
            items.append(None)
        else:
            items.append(plain_item(s.value))
    g.close()
    if deferred:
        it = iter(objs)
        items = [plain_item(next(it)) if x is None else x for x in items]
    return items


def check_streams(ctx, d):
    rng = ctx.rng("streams", d)
    doc = gen.gen_document(rng, gen.Profile(max_depth=2, p_abstract=0.5, p_dynamic=0.3))
    info = harness.DocInfo(doc)
    ld = monitored(load_definition, render.render_doc(doc))
    if ld.exc is not None:
        ctx.violation(f"load/{type(ld.exc).__name__}", repr(ld.exc), {"doc": d})
        return None
    defn = ld.value
    pb = gen.PacketBuilder(doc, rng)
    raws, solos, classes = [], [], []
    names = [c.name for c in doc.containers]
    with Immut(ctx, defn, "solo parsing"):
        for _ in range(rng.randrange(5, 41)):
            raw, _meta = pb.build(rng.choice(names + [None]), length_delta=rng.choice([0, 0, 0, 1, 3, -1, -2]))
            s = solo_result(defn, raw)
            if s[0] == "exception":
                ctx.count("solo.exception_excluded")
                # a packet the reference model calls unrecognized (abstract dead end / several matching children) must be reported
                # as UnrecognizedPacketTypeError: any other exception would end a generator instead of being skipped / yielded
                mo = ref.walk(doc, raw)
                if mo.status == "unrecognized" and not harness.has_dontcare(mo):
                    ctx.violation(f"solo/unrecognized-raises-other-exception/{s[1]}/{mo.unrec_kind}",
                                  f"model: unrecognized ({mo.unrec_kind}); parsing the packet on its own raised {s[1]}, which a generator does not catch",
                                  {"doc": d, "raw": raw, "exception": s[1], "kind": mo.unrec_kind})
                continue
            raws.append(raw)
            solos.append(s)
            cls = "unrecognized" if s[0] == "error" else ("flagged" if s[2] else "packets")
            classes.append(cls)
            ctx.count(f"solo.{cls}")
    if not raws:
        return defn
    # packets whose solo parse raised were parsed in between: whatever they left behind must not change what the others parse to
    for k, (r_, s0) in enumerate(zip(raws, solos)):
        s1 = solo_result(defn, r_)
        ctx.count("solo.recomputed")
        if s1 != s0:
            ctx.violation(f"solo-differs/second-parse/{s0[0]}->{s1[0]}", f"packet {k} parsed on its own a second time (after other packets, some of which failed to parse) gives "
                          f"{s1[0]} instead of {s0[0]}", {"doc": d, "index": k, "first": s0, "second": s1})
            break
    stream = b"".join(raws)
    outs = [ref.walk(doc, r) for r in raws]
    # "parsing each packet on its own" must not depend on which packet object carries the bytes: the raw packets the
    # framer itself yields, each wrapped and parsed twice (a second definition, a second option set, a retry)
    from space_packet_parser import packets as P
    framed = monitored(lambda: list(P.ccsds_generator(stream)))
    if framed.exc is None and [bytes(f) for f in framed.value] == raws:
        for rnd in range(2):
            for k, (f, s0) in enumerate(zip(framed.value, solos)):
                s1 = solo_result(defn, raws[k], raw_object=f)
                ctx.count("solo.framed_object_parses")
                if s1 != s0:
                    ctx.violation(f"solo-differs/framed-raw-object/parse{rnd + 1}/{s0[0]}->{s1[0]}",
                                  f"packet {k} parsed on its own from the framer's raw packet object (parse #{rnd + 1} of that object) gives "
                                  f"{s1[0]} but {s0[0]} from fresh bytes", {"doc": d, "index": k, "fresh": s0, "framed_object": s1})
                    break
    mix = "".join(sorted({c[0] for c in classes}))
    for parse_bad, yield_unrec, headers_only in itertools.product((True, False), repeat=3):
        with Immut(ctx, defn, "packet_generator"):
            deferred = (d + int(parse_bad)) % 2 == 0
            if deferred:
                ctx.count("streams.inspected_after_exhaustion")
            got = run_stream(defn, stream, deferred=deferred, parse_bad_pkts=parse_bad, yield_unrecognized_packet_errors=yield_unrec,
                             ccsds_headers_only=headers_only)
        exp = expected_from_solo(solos, raws, parse_bad, yield_unrec, headers_only)
        ctx.count("evaluations")
        ctx.count("streams")
        ctx.count("options.combos_seen")
        combo = f"bad={int(parse_bad)},unrec={int(yield_unrec)},hdr={int(headers_only)}"
        if (combo, mix) != ("bad=1,unrec=0,hdr=0", "p"):
            ctx.sig("stream", combo, mix)
        if got != exp:
            i = next((k for k, (a, b) in enumerate(zip(got, exp)) if a != b), min(len(got), len(exp)))
            kind = "exception" if any(x[0] == "exception" for x in got) else "missing" if len(got) < len(exp) else \
                "extra" if len(got) > len(exp) else "different"
            ctx.violation(f"stream-vs-solo/{kind}/{combo}", f"stream yields differ from the per-packet solo results at item {i} ({len(got)} vs {len(exp)} items); "
                          f"packet classes: {classes[:20]}", {"doc": d, "options": combo, "classes": classes, "index": i,
                                                             "got": got[i] if i < len(got) else None, "expected": exp[i] if i < len(exp) else None})
        if headers_only and len(raws) >= 3:
            # headers-only hands the framer's packets through: the same bytes with the sequence flags rewritten to FIRST, CONTINUATION,
            # LAST, ... and re-combination asked for as well still come out one raw packet per packet, in order
            seg = [r_[:2] + bytes([(r_[2] & 0x3F) | ((1, 0, 2)[k % 3] << 6)]) + r_[3:] for k, r_ in enumerate(raws)]
            got3 = run_stream(defn, b"".join(seg), parse_bad_pkts=parse_bad, yield_unrecognized_packet_errors=yield_unrec, ccsds_headers_only=True,
                              combine_segmented_packets=True)
            ctx.count("options.headers_only_with_combine")
            if got3 != [("raw", r_) for r_ in seg]:
                ctx.violation("stream-vs-solo/headers-only-with-combine", f"ccsds_headers_only=True with combine_segmented_packets=True on FIRST/CONTINUATION/LAST packets yields "
                              f"{len(got3)} items, not the {len(seg)} raw packets in order", {"doc": d, "got": got3[:4]})
        if not headers_only and parse_bad and yield_unrec and len(doc.containers) > 1 and d % 2 == 0:
            # a per-generator option (root_container_name override) belongs to that generator: run one with another root under
            # the immutability monitors, half advanced while a default generator runs, then compare the default one with the solos
            other = next(c.name for c in doc.containers if c.name != doc.root)
            g_def = defn.packet_generator(stream, parse_bad_pkts=True, yield_unrecognized_packet_errors=True)
            with Immut(ctx, defn, "packet_generator(root_container_name=...)"):
                g_ov = defn.packet_generator(stream, root_container_name=other, parse_bad_pkts=True, yield_unrecognized_packet_errors=True)
                for _ in range(2):
                    if isinstance(guarded_next(g_ov).exc, Blocked):
                        raise Blocked("a root-override generator advanced while a default generator of the same definition exists")
            got2 = []
            for _ in range(len(raws) + 2):
                s2 = guarded_next(g_def)          # g_ov may be suspended at a yielded error object: a next() that never returns is a violation
                if isinstance(s2.exc, Blocked):
                    raise Blocked("a default generator advanced while a root-override generator of the same definition is suspended")
                if s2.exc is not None:
                    if not isinstance(s2.exc, StopIteration):
                        got2.append(("exception", type(s2.exc).__name__, str(s2.exc)[:200]))
                    break
                got2.append(plain_item(s2.value))
                if isinstance(guarded_next(g_ov).exc, Blocked):
                    raise Blocked("a root-override generator advanced while a default generator of the same definition is suspended")
            g_def.close()
            g_ov.close()
            ctx.count("options.root_override_interleaved")
            if got2 != exp:
                i = next((k for k, (a, b) in enumerate(zip(got2, exp)) if a != b), min(len(got2), len(exp)))
                ctx.violation("stream-vs-solo/after-root-override-generator", f"a default generator advanced together with a generator created with root_container_name={other!r} "
                              f"differs from the solo results at item {i}", {"doc": d, "other_root": other, "index": i,
                                                                           "got": got2[i] if i < len(got2) else None, "expected": exp[i] if i < len(exp) else None})
        # model cross-check (where the model decodes): positions of unrecognized packets and partial data
        if not headers_only:
            for o, s in zip(outs, solos):
                if o.status == "unrecognized" and s[0] != "error":
                    ctx.violation("model/unrecognized-but-parsed", "model: unrecognized; library solo parse returned a packet", {"doc": d})
                if o.status == "ok" and s[0] == "error":
                    ctx.violation("model/parsed-but-unrecognized", "model decodes the packet; library solo parse reports unrecognized", {"doc": d})
    return defn


# ---------------------------------------------------------------------------------------------------------------------
# (b) interleavings
# ---------------------------------------------------------------------------------------------------------------------
def make_streams(ctx, rng, doc, n, items, segmented_defn=None):
    """n byte streams; each either generated packets of `doc` or (if segmented_defn) a segmented history"""
    pb = gen.PacketBuilder(doc, rng) if doc is not None else None
    out = []
    for _ in range(n):
        if pb is not None:
            names = [c.name for c in doc.containers]
            raws = [pb.build(rng.choice(names), length_delta=rng.choice([0, 0, 1]))[0] for _ in range(items)]
            out.append((b"".join(raws), {"yield_unrecognized_packet_errors": True}))
        else:
            hist = [(rng.choice("FCLU"), rng.randrange(2), rng.random() < 0.1) for _ in range(items * 2)]
            pk = c12.make_packets(hist, rng.choice([0, 16382]), (10, 20))
            out.append((b"".join(p["raw"] for p in pk), {"combine_segmented_packets": True, "secondary_header_bytes": rng.choice([0, 4])}))
    return out


def solo_sequence(defn, stream, kw):
    return run_stream(defn, stream, **kw)


class Blocked(Exception):
    """a next() call did not return within the watchdog time (another generator holds something across its yield)"""


def guarded_next(gen, seconds=180):
    """next(gen) in the main thread under a SIGALRM watchdog (lock acquisition is interruptible by signals)"""
    import signal

    def on_alarm(signum, frame):
        raise Blocked()
    old = signal.signal(signal.SIGALRM, on_alarm)
    signal.alarm(seconds)
    try:
        return monitored(next, gen)
    finally:
        signal.alarm(0)
        signal.signal(signal.SIGALRM, old)


def interleave(defn, streams, schedule):
    """advance generators according to schedule (list of generator indexes); returns per-generator item lists"""
    gens = [defn.packet_generator(s, **kw) for s, kw in streams]
    outs = [[] for _ in streams]
    done = [False] * len(streams)
    for gi in schedule:
        if done[gi]:
            continue
        s = guarded_next(gens[gi])
        if isinstance(s.exc, Blocked):
            raise Blocked(f"generator {gi} of {len(gens)}")
        if s.exc is not None:
            done[gi] = True
            if not isinstance(s.exc, StopIteration):
                outs[gi].append(("exception", type(s.exc).__name__, str(s.exc)[:200]))
            continue
        outs[gi].append(plain_item(s.value))
    for g in gens:
        g.close()
    return outs


def check_interleavings(ctx, d, defn_doc):
    rng = ctx.rng("il", d)
    defn, doc = defn_doc
    seg_defn = load_definition(docs.header_plus_blob_doc())
    # ---- all interleavings of 3 generators x 3 items --------------------------------------------------------------
    for family, dfn, dc in (("generated", defn, doc), ("segmented", seg_defn, None)):
        streams = make_streams(ctx, rng, dc, 3, 3, seg_defn if dc is None else None)
        solos = [solo_sequence(dfn, s, kw) for s, kw in streams]
        scheds = set(itertools.permutations([0] * 3 + [1] * 3 + [2] * 3))
        n = 0
        with Immut(ctx, dfn, f"interleaved generators ({family})"):
            for si, sched in enumerate(sorted(scheds)):
                if not ctx.mine(si + d):
                    continue
                n += 1
                tail = [0, 1, 2] * 6   # let every generator run to its end after the enumerated prefix
                outs = interleave(dfn, streams, list(sched) + tail)
                ctx.count("evaluations")
                if family == "segmented":
                    ctx.count("interleave.segmented")
                if outs != solos:
                    gi = next(i for i in range(3) if outs[i] != solos[i])
                    ctx.violation(f"interleaving/exhaustive/{family}", f"generator {gi} produced a different sequence under schedule {sched} than when run alone",
                                  {"schedule": sched, "generator": gi, "got": outs[gi][:4], "alone": solos[gi][:4]})
                    break
        ctx.count("interleavings.exhaustive", n)
        ctx.sig("interleave", "exhaustive-3x3", family)
    ctx.exhaustive_space("interleavings of 3 generators x 3 items (1680 schedules) x 2 stream families", 1)
    # ---- random / round-robin, 2-6 generators ---------------------------------------------------------------------------
    for trial in range(ctx.size(3, 40)):
        k = rng.randrange(2, 7)
        family = rng.choice(["generated", "segmented", "mixed"])
        if family == "mixed":
            dfn = seg_defn
            streams = make_streams(ctx, rng, None, k, rng.randrange(3, 20), seg_defn)
            for i in range(0, k, 2):
                streams[i] = (streams[i][0], {"combine_segmented_packets": False, "parse_bad_pkts": bool(i % 4)})
        elif family == "generated":
            dfn = defn
            streams = make_streams(ctx, rng, doc, k, rng.randrange(3, 20))
        else:
            dfn = seg_defn
            streams = make_streams(ctx, rng, None, k, rng.randrange(3, 20), seg_defn)
        solos = [solo_sequence(dfn, s, kw) for s, kw in streams]
        total = sum(len(s) for s in solos) + 2 * k
        kind = rng.choice(["round-robin", "random", "bursty"])
        if kind == "round-robin":
            sched = [i % k for i in range(total * 2)]
        elif kind == "random":
            sched = [rng.randrange(k) for _ in range(total * 4)]
        else:
            sched = []
            while len(sched) < total * 4:
                sched += [rng.randrange(k)] * rng.randrange(1, 6)
        sched += list(range(k)) * (total + 2)
        with Immut(ctx, dfn, f"interleaved generators ({family}, {kind})"):
            outs = interleave(dfn, streams, sched)
        ctx.count("evaluations")
        ctx.count("interleavings.random")
        if family != "generated":
            ctx.count("interleave.segmented")
        ctx.sig("interleave", kind, family, k)
        if outs != solos:
            gi = next(i for i in range(k) if outs[i] != solos[i])
            ctx.violation(f"interleaving/{kind}/{family}", f"generator {gi} of {k} produced a different sequence when interleaved ({kind}) than when run alone",
                          {"k": k, "generator": gi, "got": outs[gi][:4], "alone": solos[gi][:4]})
    # ---- real threads -----------------------------------------------------------------------------------------------------
    for family, dfn, dc in (("generated", defn, doc), ("segmented", seg_defn, None)):
        streams = make_streams(ctx, rng, dc, 4, ctx.size(25, 120), seg_defn if dc is None else None)
        solos = [solo_sequence(dfn, s, kw) for s, kw in streams]
        results = [None] * 4
        old = sys.getswitchinterval()
        sys.setswitchinterval(1e-6)
        try:
            def work(i):
                results[i] = run_stream(dfn, streams[i][0], **streams[i][1])
            with Immut(ctx, dfn, f"threads ({family})"):
                ths = [threading.Thread(target=work, args=(i,), daemon=True) for i in range(4)]
                for t in ths:
                    t.start()
                for t in ths:
                    t.join(120)
        finally:
            sys.setswitchinterval(old)
        ctx.count("evaluations")
        ctx.count("interleavings.threads")
        ctx.sig("interleave", "threads", family)
        if results != solos:
            gi = next(i for i in range(4) if results[i] != solos[i])
            ctx.violation(f"interleaving/threads/{family}", f"thread {gi}'s generator produced a different sequence than when run alone",
                          {"generator": gi, "got": (results[gi] or [])[:3], "alone": solos[gi][:3]})


def calibrator_history(ctx):
    """two generators of one definition over DIFFERENT streams, advanced alternately: values that sit exactly on spline points /
    enumeration keys / criteria thresholds in one stream, values just beside them in the other. Each generator's sequence must
    equal the one it produces alone (calibrators and criteria keep no memory of earlier evaluations)"""
    from space_packet_parser import packets as P
    from vmon.props.c05 import header_types
    ts, ps = header_types("PKT_APID")
    sp0 = ir.Spline(((0.0, 0.0), (10.0, 100.0), (20.0, 200.0), (200.0, 5.0)), 0, False)
    sp1 = ir.Spline(((0.0, 0.0), (10.0, 100.0), (20.0, 50.0), (255.0, 5.0)), 1, True)
    ts += [ir.PType("X_T", "integer", ir.IntEnc(8, "unsigned", False, sp0, ())), ir.PType("Y_T", "float", ir.IntEnc(8, "unsigned", False, sp1, ())),
           ir.PType("Z_T", "integer", ir.IntEnc(8, "unsigned", False, ir.Poly(((1.5, 0), (2.0, 1))),
                                                  (ir.ContextCal((ir.Comparison("X", "10", ">=", False),), ir.Poly(((7.0, 1),))),)))]
    ps += [ir.Param("X", "X_T"), ir.Param("Y", "Y_T"), ir.Param("Z", "Z_T")]
    root = ir.Container("CCSDSPacket", tuple(("p", p.name) for p in ps))
    defn = load_definition(render.render_doc(ir.Doc(tuple(ts), tuple(ps), (root,))))
    mk = lambda vals: b"".join(bytes(P.create_ccsds_packet(bytes(v), apid=5, sequence_count=i)) for i, v in enumerate(vals))
    streams = [mk([(5, 5, 1), (9, 19, 2), (5, 15, 3), (15, 5, 4), (19, 9, 5), (150, 30, 6)]),
               mk([(10, 10, 1), (10, 20, 2), (20, 10, 3), (20, 20, 4), (0, 0, 5), (200, 255, 6)]),
               mk([(20, 10, 9), (5, 20, 9), (10, 5, 9), (0, 255, 9), (10, 10, 9), (9, 9, 9)])]
    kw = {"yield_unrecognized_packet_errors": True}
    alone = [run_stream(defn, st, **kw) for st in streams]
    for sched_name, sched in (("round-robin", [0, 1, 2] * 8), ("pairs", [0, 0, 1, 1, 2, 2] * 4), ("reverse", [2, 1, 0] * 8)):
        outs = interleave(defn, [(st, kw) for st in streams], sched)
        ctx.count("evaluations")
        ctx.count("interleave.calibrator_history")
        ctx.sig("interleave", "calibrator-history", sched_name)
        if outs != alone:
            gi = next(i for i in range(3) if outs[i] != alone[i])
            k = next((j for j, (a, b) in enumerate(zip(outs[gi], alone[gi])) if a != b), 0)
            ctx.violation(f"interleaving/calibrator-history/{sched_name}", f"generator {gi} item {k} differs when three generators over different streams are advanced "
                          f"alternately ({sched_name}) from what it yields alone", {"generator": gi, "item": k, "got": outs[gi][k:k + 1], "alone": alone[gi][k:k + 1]})
    # the same within ONE generator: a stream and its reversal decode each packet to the same items
    fwd = run_stream(defn, streams[0] + streams[1], **kw)
    rev_stream = b"".join(reversed([streams[1][i:i + 9] for i in range(0, len(streams[1]), 9)] + [streams[0][i:i + 9] for i in range(0, len(streams[0]), 9)]))
    rev = run_stream(defn, rev_stream, **kw)
    key = lambda it: it[2] if len(it) > 2 else None
    if sorted(map(repr, fwd)) != sorted(map(repr, rev)):
        ctx.violation("order-dependence/calibrator-history", "the same packets decode to different items when the stream is reversed", {"n": len(fwd)})


def failed_packet_leaves_nothing_behind(ctx):
    """a packet that cannot be decoded (a text field ending in the middle of a multi-byte character, an unlisted enumeration value, a
    field running past the end) in one generator / one solo parse leaves nothing behind: the same good packets decode to the same
    items before and after it, in the same and in other generators"""
    from space_packet_parser import packets as P
    from vmon.props.c05 import header_types
    ts, ps = header_types("PKT_APID")
    ts += [ir.PType("TXT_T", "string", ir.StrEnc("UTF-8", 32)), ir.PType("W_T", "string", ir.StrEnc("UTF-16BE", 32)),
           ir.PType("EN_T", "enumerated", ir.IntEnc(8, "unsigned"), None, ((1, "ONE"), (2, "TWO"))), ir.PType("F_T", "float", ir.FloatEnc(32, "IEEE754", False))]
    ps += [ir.Param("TXT", "TXT_T"), ir.Param("W", "W_T"), ir.Param("EN", "EN_T"), ir.Param("F", "F_T")]
    root = ir.Container("CCSDSPacket", tuple(("p", p.name) for p in ps))
    defn = load_definition(render.render_doc(ir.Doc(tuple(ts), tuple(ps), (root,))))
    mk = lambda txt, w, en, tail=b"\x3f\x80\x00\x00": bytes(P.create_ccsds_packet(txt + w + bytes([en]) + tail, apid=9))
    good = [mk(b"wxyz", b"\x00A\x00B", 1), mk(b"\xc3\xa9ab", b"\x01\x00\x00C", 2), mk(b"abcd", b"\x00x\x00y", 1)]
    bad = [mk(b"abc\xc3", b"\x00A\x00B", 1), mk(b"abcd", b"\xd8\x00\x00A", 1), mk(b"abcd", b"\x00A\x00B", 7), mk(b"abcd", b"\x00A\x00B", 1, tail=b"\x3f")]
    before = [solo_result(defn, g) for g in good]
    for bi, b_ in enumerate(bad):
        monitored(lambda: list(defn.packet_generator(b_)))             # whatever this does (raise / skip) is not judged here
        solo_result(defn, b_)
        after = [solo_result(defn, g) for g in good]
        stream_after = run_stream(defn, b"".join(good))
        ctx.count("evaluations")
        ctx.count("failed_packet.then_good_packets")
        ctx.sig("failed-packet", bi)
        if after != before or [x for x in stream_after] != [b[1] for b in before if b[0] == "packet"]:
            k = next((j for j, (a, b2) in enumerate(zip(after, before)) if a != b2), 0)
            ctx.violation(f"solo-differs/after-failed-packet/{('text-ends-mid-character', 'lone-surrogate', 'unlisted-enum', 'truncated')[bi]}",
                          f"good packet {k} decodes differently after a packet that cannot be decoded was parsed", {"bad_packet": bi, "good_packet": k,
                                                                                                                  "before": before[k], "after": after[k]})


def error_suspension(ctx):
    """a generator that has just yielded an unrecognized-packet error object is suspended there while OTHER generators (of this and
    of another definition) are advanced: every next() returns (a watchdog alarm turns a blocked next() into a violation)"""
    import signal
    from space_packet_parser import packets as P
    doc_xml = docs.header_only_doc(root_abstract=True, extra_containers=(
        '<xtce:SequenceContainer name="K"><xtce:EntryList/><xtce:BaseContainer containerRef="CCSDSPacket"><xtce:RestrictionCriteria>'
        '<xtce:Comparison parameterRef="PKT_APID" value="11" useCalibratedValue="false"/></xtce:RestrictionCriteria></xtce:BaseContainer></xtce:SequenceContainer>'))
    d1, d2 = load_definition(doc_xml), load_definition(doc_xml)
    mk = lambda apids: b"".join(bytes(P.create_ccsds_packet(bytes([i]), apid=a, sequence_count=i)) for i, a in enumerate(apids))
    streams = [mk([99, 11, 98, 11]), mk([11, 97, 11]), mk([96, 95, 11])]
    kw = {"yield_unrecognized_packet_errors": True, "parse_bad_pkts": True}
    alone = [run_stream(d, st, **kw) for d, st in ((d1, streams[0]), (d1, streams[1]), (d2, streams[2]))]

    def on_alarm(signum, frame):
        raise TimeoutError("next() did not return within the watchdog time")
    old = signal.signal(signal.SIGALRM, on_alarm)
    try:
        for sched_name, sched in (("round-robin", [0, 1, 2] * 6), ("error-then-others", [0, 1, 1, 2, 2, 0, 0, 1, 2, 0, 0, 1, 2]), ("reverse", [2, 1, 0] * 6)):
            gens = [d1.packet_generator(streams[0], **kw), d1.packet_generator(streams[1], **kw), d2.packet_generator(streams[2], **kw)]
            outs = [[], [], []]
            blocked = None
            for gi in sched:
                signal.alarm(180)
                try:
                    s = monitored(next, gens[gi])
                finally:
                    signal.alarm(0)
                if isinstance(s.exc, TimeoutError):
                    blocked = gi
                    break
                if s.exc is None:
                    outs[gi].append(plain_item(s.value))
            ctx.count("evaluations")
            ctx.count("interleave.error_suspension")
            ctx.sig("interleave", "error-suspension", sched_name)
            if blocked is not None:
                ctx.violation(f"interleaving/blocked-next/{sched_name}", f"next() of generator {blocked} did not return within 180 s while another generator was suspended "
                              "at an error object it had just yielded", {"schedule": sched_name, "generator": blocked})
                raise Blocked(f"error-suspension schedule {sched_name}")   # the abandoned generator keeps whatever it holds
            for g in gens:
                g.close()
            if any(o != a[:len(o)] for o, a in zip(outs, alone)):
                ctx.violation(f"interleaving/error-suspension/{sched_name}", "generators advanced around yielded error objects differ from their solo sequences",
                              {"schedule": sched_name})
    finally:
        signal.signal(signal.SIGALRM, old)


def run(ctx):
    try:
        _run(ctx)
    except Blocked as b:
        # whatever blocks one next() (a lock kept across a yield) stays held by the abandoned generator: nothing more can be
        # decided in this process, the violation stands
        ctx.violation("interleaving/blocked-next/general", f"a next() call did not return within the watchdog time while generators were interleaved ({b})",
                      {"detail": str(b)})


def _run(ctx):
    arm_setattr(ctx)
    if ctx.mine(1):
        calibrator_history(ctx)
    if ctx.mine(2):
        error_suspension(ctx)
    if ctx.mine(3):
        failed_packet_leaves_nothing_behind(ctx)
    ndocs = ctx.size(96, 15000)
    for d in range(ndocs):
        if not ctx.mine(d):
            continue
        defn = check_streams(ctx, d)
        if d < 2:
            ctx.sample({"doc": d, "note": "stream of generated packets compared with per-packet solo results under 8 option combinations"})
    # interleavings on a few documents per shard
    for d in range(ctx.size(32, 600)):
        if not ctx.mine(d):
            continue
        rng = ctx.rng("ildoc", d)
        doc = gen.gen_document(rng, gen.Profile(max_depth=2, p_abstract=0.4))
        ld = monitored(load_definition, render.render_doc(doc))
        if ld.exc is None:
            check_interleavings(ctx, d, (ld.value, doc))
