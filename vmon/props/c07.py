"""C07 — string and binary fields, including computed lengths, decode as documented.

Monitor shape M, direct driving: string/binary parameter types described in the IR are built by both routes and
ParameterType.parse_value is executed on prepared packets (content chosen in the target character set, terminator /
size tag placed, length-controlling parameters already "decoded"); value, raw_value (whole buffer right-padded for
strings, field left-padded for binary), class and cursor delta are compared with the reference decoder. The same
semantics are observed in real generator runs by C01.
"""
import itertools

from vmon import bits, build, gen, ir, ref, render, synth
from vmon.libutil import monitored, xtce_element

LEVEL = "exploration"
SHARDS = {"quick": 16, "thorough": 16}
MUST = ["string.term_several_code_units", "framed_objects.passes", "generic_charset.both_byte_orders_in_one_process", "generic_charset.text_starting_with_bom_character", "route.rewritten_ok", "sequence.cases", "len.lookup-zero", "len.fractional-reference", "string.whole", "string.term", "string.lead", "binary", "len.fixed", "len.dyn", "len.lookup", "len.zero", "len.not-multiple-of-8",
        "offset.unaligned", "charset.multi", "charset.single", "route.ctor", "route.xml", "expected.errors", "dyn.calibrated", "dyn.raw"]
RULE = ("case = (string/binary encoding IR, values of the referenced length parameters, content bits, bit offset, "
        "construction route). Directed grid: 8 concrete character sets (+ generic UTF-16/UTF-32 with byteOrder) x "
        "{whole buffer, termination character, leading size} x {fixed, dynamic reference raw/calibrated +- linear "
        "adjustment incl. results of 0, discrete lookup} x bit offsets 0..7 x buffer lengths {0,1,7,8,9,16,21,24,64,..}; "
        "hostile contents: terminator absent, terminator bytes present only mis-aligned in multi-byte sets, "
        "undecodable bytes, size tags pointing past the buffer. Plus seeded random cases. distinct_nontrivial = "
        "distinct (kind, charset class, delimitation, length-spec kind, offset mod 8, length class, outcome class, "
        "route) signatures; a byte-aligned fixed-length ASCII string is the trivial case and is excluded.")
ASSUMPTIONS = ["size tag + text running into the padding bits, and terminator matches that involve padding bits, are not pinned down and not compared",
               "computed lengths are integral by construction; negative lengths are C14's business"]

CHARSETS = ["US-ASCII", "ISO-8859-1", "Windows-1252", "UTF-8", "UTF-16LE", "UTF-16BE", "UTF-32LE", "UTF-32BE"]
TERMS = {"\x00": "NUL", ";": "semi", "X": "X", "\u00a7": "sect", "\u20ac": "euro", "\U0001F600": "astral"}


def term_for(rng, charset):
    """a termination character (hex of its encoded form) the charset can express: single code unit ones and ones that take
    several code units (2-4 bytes in UTF-8, a surrogate pair in UTF-16)"""
    ok = []
    for ch in TERMS:
        try:
            ok.append(ch.encode(ref.PY_CODEC[charset]).hex())
        except UnicodeEncodeError:
            pass
    return rng.choice(ok)


def lenclass(L):
    return "0" if L == 0 else "sub-byte" if L < 8 else "nonmult8" if L % 8 else "8" if L == 8 else "multi"


def make(ctx, rng, t, route):
    from space_packet_parser.xtce import parameter_types as T
    ctx.count(f"route.{route}")
    if route == "ctor":
        return build.ptype(t)
    if route == "rewritten":
        # a third way of obtaining the same parser: the constructor-built type written by the library's own to_xml and loaded
        # again (a definition that went through write_xml). If writing fails that is C09's business: fall back to "ctor".
        import lxml.etree as ET
        from lxml.builder import ElementMaker
        from vmon.libutil import XTCE_NS
        try:
            el0 = build.ptype(t).to_xml(elmaker=ElementMaker(namespace=XTCE_NS, nsmap={"xtce": XTCE_NS}))
            el = xtce_element(ET.tostring(el0).decode())
            ctx.count("route.rewritten_ok")
            return getattr(T, ir.KIND_TAG[t.kind]).from_xml(el)
        except Exception as ex:  # noqa: BLE001
            ctx.count("route.rewritten_unavailable")
            ctx.note(f"rewritten route unavailable for {t.enc!r}: {ex!r}")
            return build.ptype(t)
    el = xtce_element(render.render_fragment(render.type_el(t, render.Opts(explicit=None, rng=rng))))
    return getattr(T, ir.KIND_TAG[t.kind]).from_xml(el)


def feature(t):
    from vmon.harness import enc_features
    return enc_features(t)


def run_case(ctx, rng, t, lib, assign, fb, offset, route, hostile=""):
    pkt, env, allbits = synth.packet_of(assign, fb, offset, rng, tail_bits=rng.randrange(0, 12))
    ctx.count("evaluations")
    L = len(fb)
    e = t.enc
    if isinstance(e, ir.BinEnc):
        ctx.count("binary")
    else:
        ctx.count("string." + ("lead" if e.leading_size is not None else "term" if e.termination is not None else "whole"))
        ctx.count("charset.multi" if ref.CODE_UNIT.get(e.charset, 1) > 1 else "charset.single")
    lk = "fixed" if isinstance(e.length, int) else "lookup" if isinstance(e.length, ir.Lookup) else "dyn"
    ctx.count(f"len.{lk}")
    if lk == "dyn":
        ctx.count("dyn.calibrated" if e.length.calibrated else "dyn.raw")
    if L == 0:
        ctx.count("len.zero")
        if lk == "lookup":
            ctx.count("len.lookup-zero")
    if lk == "dyn" and any(isinstance(v[1], float) and v[1] != int(v[1]) for v in assign.values()):
        ctx.count("len.fractional-reference")
    if L % 8:
        ctx.count("len.not-multiple-of-8")
    if offset % 8:
        ctx.count("offset.unaligned")
    wit = {"type": repr(t)[:700], "assign": assign, "field_bits": fb[:256], "L": L, "offset": offset, "route": route, "hostile": hostile}
    try:
        exp, newpos = ref.decode_param(t, allbits, offset, env)
        err = None
    except ref.ModelError as ex:
        exp, err = None, ex
    except ref.DontCare:
        ctx.count("dontcare")
        return
    except (ref.OverRead, ref.NegativeLength):
        return
    step = monitored(lib.parse_value, pkt)
    feat = feature(t)
    outcome = "error" if err else "value"
    trivial = (feat, offset % 8, lenclass(L)) == ("str/single/whole/fixed", 0, "multi")
    if not trivial:
        ctx.sig(t.kind, feat, offset % 8, lenclass(L), outcome, route)
    if err is not None:
        ctx.count("expected.errors")
        if step.exc is None and err.kind in ("terminator-absent", "undecodable", "string-length-not-multiple-of-8", "lookup-no-match"):
            ctx.violation(f"expected-failure-returned-value/{err.kind}/{feat}", f"model: {err}; library returned {step.value!r}", dict(wit, got=step.value))
        return
    if step.exc is not None:
        ctx.violation(f"exception/{type(step.exc).__name__}/{feat}/{'unaligned' if offset % 8 else 'aligned'}/{lenclass(L)}",
                      f"parse_value raised {step.exc!r}; model value {exp.value!r}", dict(wit, expected=exp.value, expected_raw=exp.raw))
        return
    why = synth.compare_value(step.value, exp)
    if why:
        ctx.violation(f"mismatch/{why.split(' ')[0]}/{feat}/{'unaligned' if offset % 8 else 'aligned'}/{lenclass(L)}", why,
                      dict(wit, got=step.value, got_raw=getattr(step.value, "raw_value", None), expected=exp.value, expected_raw=exp.raw))
    elif pkt.raw_data.pos != newpos:
        ctx.violation(f"cursor/{feat}", f"cursor {pkt.raw_data.pos}, expected {newpos} (field of {L} bits at {offset})", wit)


def length_variants(rng, L, unit_bits):
    """ways to specify a buffer of exactly L bits: (length spec, assignment of referenced parameters)"""
    out = [(L, {})]
    # dynamic: raw / calibrated, with and without linear adjustment
    if L % unit_bits == 0 or True:
        for calibrated in (False, True):
            # (a) reference gives the bit length itself
            out.append((ir.DynLen("LEN", calibrated, None, None),
                        {"LEN": ("float", float(L), 3) if calibrated else ("int", 77, L)}))
            # (b) slope/intercept: L = slope*x + intercept
            for slope, intercept in ((8, 0), (8, L % 8), (1, 0), (16, L % 16), (8, -8), (2, L % 2 - 2 if L >= 2 else L % 2)):
                rem = L - intercept
                if slope and rem % slope == 0 and rem // slope >= 0:
                    x = rem // slope
                    if calibrated:
                        out.append((ir.DynLen("LEN", True, slope, intercept), {"LEN": ("float", float(x), 1000 + x)}))
                    else:
                        out.append((ir.DynLen("LEN", False, slope, intercept), {"LEN": ("float", 0.25, x)}))
            out.append((ir.DynLen("LEN", calibrated, None, L - 3 if False else None), {"LEN": ("int", L, L)}))
            # (b') only one of the two attributes is written: the omitted slope is the schema default 0 (a constant size L whatever
            # LEN holds), the omitted intercept is 0
            out.append((ir.DynLen("LEN", calibrated, None, L), {"LEN": ("float", 5.0, 7)}))
            if L % 8 == 0:
                out.append((ir.DynLen("LEN", calibrated, 8, None), {"LEN": ("float", float(L // 8), L // 8)}))
    # (c) the referenced VALUE is fractional but the computed length is integral (2.5 "bytes" x 8 = 20 bits)
    for slope, frac in ((8, 0.5), (16, 0.25), (2, 0.5), (8, 0.125), (32, 0.75)):
        for intercept in (0, 4, -int(slope * frac)):
            rem = L - intercept
            x = rem / slope
            if rem >= 0 and x != int(x) and slope * x + intercept == L:
                out.append((ir.DynLen("LEN", True, slope, intercept), {"LEN": ("float", float(x), 5)}))
    # lookup: second entry matches (first match wins: the later entry also matches). L == 0 included: a looked-up
    # length of 0 bits is a legal value, not "no match"
    # the first entry's second comparison refers to a parameter this packet kind does not carry: its first comparison is
    # false, so the entry simply does not apply
    lk = ir.Lookup((((ir.Comparison("MODE", "9"), ir.Comparison("NOT_IN_THIS_PACKET", "1")), L + 8), ((ir.Comparison("MODE", "2", ">=", False), ir.Comparison("FLAG", "ON")), L),
                    ((ir.Comparison("MODE", "2", ">=", False),), L + 16)))
    out.append((lk, {"MODE": ("int", 3, 3), "FLAG": ("str", "ON", 1)}))
    if L > 0:
        out.append((lk, {"MODE": ("int", 0, 0), "FLAG": ("str", "ON", 1)}))   # no entry matches -> error expected
    # criteria on the RAW value of a parameter whose derived value is text (an enumeration) or a float: the literal is read in the
    # type of the raw value
    lk2 = ir.Lookup((((ir.Comparison("FLAG", "0", "==", False),), L + 8), ((ir.Comparison("FLAG", "1", ">=", False), ir.Comparison("TEMP", "40", "<", False)), L),
                     ((ir.Comparison("FLAG", "ON"),), L + 24)))
    out.append((lk2, {"FLAG": ("str", "ON", 1), "TEMP": ("float", 98.6, 37)}))
    out.append((lk2, {"FLAG": ("str", "ON", 2), "TEMP": ("float", 0.5, 39)}))
    # an entry applies only if ALL its comparisons hold: the first entry's first comparison holds, a later one does not
    lk3 = ir.Lookup((((ir.Comparison("FLAG", "1", ">=", False), ir.Comparison("TEMP", "40", "<", False)), L + 8),
                     ((ir.Comparison("MODE", "3"), ir.Comparison("MODE", "2", ">="), ir.Comparison("FLAG", "OFF")), L + 16),
                     ((ir.Comparison("FLAG", "ON"),), L)))
    out.append((lk3, {"FLAG": ("str", "ON", 1), "TEMP": ("float", 98.6, 45), "MODE": ("int", 3, 3)}))
    return out


def hostile_contents(rng, enc, L):
    """bit strings that are NOT well-formed for the delimitation"""
    out = []
    nbytes = L // 8
    unit = ref.CODE_UNIT.get(enc.charset, 1)
    if enc.termination is not None and nbytes >= 2 * unit:
        term = bytes.fromhex(enc.termination)
        filler = "A".encode(ref.PY_CODEC.get(enc.charset, "utf-16-be"))
        # terminator absent
        body = (filler * nbytes)[:nbytes]
        out.append(("term-absent", bits.bitstr(body) + "0" * (L - 8 * nbytes)))
        if unit > 1 and nbytes >= 3 * unit:
            # terminator bytes present only mis-aligned: character ending in NULs followed by one starting with NULs
            hi = "Ā".encode(ref.PY_CODEC[enc.charset])   # U+0100: one zero byte and one 0x01
            lo = "A".encode(ref.PY_CODEC[enc.charset])
            seq = (hi + lo) if enc.charset.endswith("BE") else (lo + hi)
            body = (seq + term + filler * nbytes)[:nbytes]
            out.append(("term-misaligned-before-real", bits.bitstr(body) + "0" * (L - 8 * nbytes)))
            body2 = (seq * nbytes)[:nbytes]
            out.append(("term-only-misaligned", bits.bitstr(body2) + "0" * (L - 8 * nbytes)))
    if enc.leading_size is not None:
        ls = enc.leading_size
        if L > ls:
            for n in ((L - ls) // 8 * 8 + 8, (1 << ls) - 1, 3, 0):
                if n < (1 << ls):
                    out.append((f"lead-size-{'past' if ls + n > L else 'odd' if n % 8 else 'zero' if n == 0 else 'ok'}",
                                (bits.to_bits(n, ls) + "01000001" * (L // 8 + 1))[:L]))
    if enc.charset in ("US-ASCII", "UTF-8", "Windows-1252") and nbytes >= 1 and enc.leading_size is None:
        out.append(("undecodable", bits.bitstr((b"\x81\xff\xc3" * nbytes)[:nbytes]) + "0" * (L - 8 * nbytes)))
    return out


def framed_objects_several_passes(ctx):
    """end to end: a document with a dynamically sized string and a lookup-sized binary field; the raw packets are collected first
    (ccsds_generator) and the very same raw packet objects are wrapped and parsed in three passes (a header-only pass with another root
    first): every pass gives the model's values"""
    from space_packet_parser import packets as P
    from vmon import harness, render
    from vmon.libutil import load_definition
    from vmon.props.c05 import header_types
    ts, ps = header_types("PKT_APID")
    ts += [ir.PType("N_Type", "integer", ir.IntEnc(8, "unsigned", False)),
           ir.PType("TXT_Type", "string", ir.StrEnc("UTF-8", ir.DynLen("N", False, 8, None), "00")),
           ir.PType("BLOB_Type", "binary", ir.BinEnc(ir.Lookup((((ir.Comparison("N", "6", "<"),), 12), ((ir.Comparison("N", "6", ">="),), 20)))))]
    ps += [ir.Param("N", "N_Type"), ir.Param("TXT", "TXT_Type"), ir.Param("BLOB", "BLOB_Type")]
    hdr = tuple(("p", p.name) for p in ps[:7])
    doc = ir.Doc(tuple(ts), tuple(ps), (ir.Container("CCSDSPacket", hdr + (("p", "N"), ("p", "TXT"), ("p", "BLOB"))), ir.Container("HeaderOnly", hdr)))
    info = harness.DocInfo(doc)
    defn = load_definition(render.render_doc(doc))
    bodies = [(b"abc\x00", 12), (b"hello\x00\x00\x00", 20), (b"\x00", 12), (b"caf\xc3\xa9\x00", 20), (b"xy\x00zz", 12)]
    raws = []
    for i, (buf, nb) in enumerate(bodies):
        raws.append(bytes(P.create_ccsds_packet(bytes([len(buf)]) + buf + bytes((nb + 7) // 8 * [0xA5 ^ i]), apid=11, sequence_count=i)))
    framed = list(P.ccsds_generator(b"".join(raws)))
    outs = [ref.walk(doc, r) for r in raws]
    for f in framed:
        monitored(defn.parse_ccsds_packet, P.CCSDSPacket(raw_data=f), root_container_name="HeaderOnly")
    for pass_no in (1, 2, 3):
        for f, raw, out in zip(framed, raws, outs):
            pkt = P.CCSDSPacket(raw_data=f)
            step = monitored(defn.parse_ccsds_packet, pkt)
            ctx.count("evaluations")
            ctx.count("framed_objects.passes")
            ctx.sig("framed-object", pass_no)
            for mech, msg in harness.judge_single(ctx, info, raw, step, pkt, out):
                ctx.violation(f"framed-object-pass/{'first' if pass_no == 1 else 'later'}/{mech}", f"pass {pass_no} over the same framed raw packet objects: {msg}", {"pass": pass_no, "raw": raw})


def run(ctx):
    if ctx.shard == 1 % ctx.nshards:
        framed_objects_several_passes(ctx)
    rng = ctx.rng("c07")
    routes = ("ctor", "xml", "rewritten")
    item = 0
    lengths = [0, 1, 7, 8, 9, 16, 21, 24, 32, 40, 64, 96, 128]
    # ---- strings: directed grid --------------------------------------------------------------------------------------
    for charset in CHARSETS:
        unit = ref.CODE_UNIT[charset]
        for delim in ("whole", "term", "lead"):
            for L in lengths:
                item += 1
                if not ctx.mine(item):
                    continue
                for spec, assign in length_variants(rng, L, 8 * unit):
                    if spec == 0:
                        continue   # a FIXED size of 0 bits is degenerate (rejected at construction); 0 via references is driven
                    term = lead = None
                    if delim == "term":
                        term = term_for(rng, charset)
                        if len(bytes.fromhex(term)) > unit:
                            ctx.count("string.term_several_code_units")
                    if delim == "lead":
                        lead = rng.choice([3, 8, 16, 5])
                    enc = ir.StrEnc(charset, spec, term, lead)
                    t = ir.PType("T", "string", enc, None)
                    try:
                        libs = {r: make(ctx, rng, t, r) for r in routes}
                    except Exception as ex:  # noqa: BLE001
                        ctx.violation(f"construct/{type(ex).__name__}/{feature(t)}", f"could not construct {enc!r}: {ex!r}", {"type": repr(t)})
                        continue
                    contents = [("plain", gen.string_bits(rng, enc, L)) for _ in range(2)] + hostile_contents(rng, enc, L)
                    for ci, (hname, fb) in enumerate(contents):
                        for offset in (range(8) if ci == 0 else (rng.randrange(8),)):
                            route = routes[(offset + ci) % 3]
                            run_case(ctx, rng, t, libs[route], assign, fb, offset, route, hname)
                    if item < 30 and L == 24:
                        ctx.sample({"encoding": repr(enc), "assign": assign, "content_bits": contents[0][1]})
    # ---- generic UTF-16 / UTF-32 with an explicit byteOrder -------------------------------------------------------------
    #      both byte orders of one generic character set are used in the SAME process, alternating (a container holding both)
    both_orders = []
    for charset in ("UTF-16", "UTF-32"):
        item += 1
        if ctx.mine(item):
            both_orders += [(charset, ir.MSB), (charset, ir.LSB), (charset, ir.MSB), (charset, ir.LSB)]
    for charset, bo in both_orders:
        ctx.count("generic_charset.both_byte_orders_in_one_process")
        unit = ref.CODE_UNIT[charset]
        for L in (8 * unit * 3, 8 * unit * 5):
            codec = charset.lower() + ("-be" if bo == ir.MSB else "-le")
            for delim, lead_text in (("whole", "AĀ9xyz"), ("term", "AĀ9xyz"), ("whole", "\ufeffAB9xy"), ("term", "\ufeffAB9xy"), ("whole", "\ufffeĀBxyz"), ("whole", "A\ufeffBxyz")):
                # text may begin with (or contain) U+FEFF / U+FFFE: with a declared byte order these are ordinary characters of the text
                text = lead_text[:L // (8 * unit) - (1 if delim == "term" else 0)]
                if text[:1] in ("\ufeff", "\ufffe"):
                    ctx.count("generic_charset.text_starting_with_bom_character")
                raw = text.encode(codec) + ("\x00".encode(codec) if delim == "term" else b"")
                raw = (raw + bytes(L // 8))[:L // 8]
                enc = ir.StrEnc(charset, L, "\x00".encode(codec).hex() if delim == "term" else None, None, bo)
                t = ir.PType("T", "string", enc, None)
                for route in routes:
                    try:
                        lib = make(ctx, rng, t, route)
                    except Exception as ex:  # noqa: BLE001
                        ctx.violation(f"construct/{type(ex).__name__}/generic-{charset}-byteorder/{route}", f"could not construct {enc!r}: {ex!r}", {"type": repr(t)})
                        continue
                    run_case(ctx, rng, t, lib, {}, bits.bitstr(raw), rng.randrange(8), route, "generic-charset")
    # ---- binary ------------------------------------------------------------------------------------------------------------
    for L in [0, 1, 3, 7, 8, 9, 15, 16, 17, 31, 32, 33, 64, 65, 100, 1024]:
        item += 1
        if not ctx.mine(item):
            continue
        for spec, assign in length_variants(rng, L, 1):
            t = ir.PType("T", "binary", ir.BinEnc(spec), None)
            libs = {r: make(ctx, rng, t, r) for r in routes}
            for offset in range(8):
                fb = rng.choice(["0" * L, "1" * L, "".join(rng.choice("01") for _ in range(L))])
                route = routes[offset % 3]
                run_case(ctx, rng, t, libs[route], assign, fb, offset, route)
    # ---- sequences on ONE parameter-type object: lookups / references resolve per packet, nothing may be remembered ----------
    lk = ir.Lookup((((ir.Comparison("MODE", "2"),), 32), ((ir.Comparison("MODE", "1", ">=", False),), 16), ((ir.Comparison("FLAG", "ON"),), 8)))
    seq_assigns = [{"MODE": ("int", m, m), "FLAG": ("str", f, 1 if f == "ON" else 0)} for m in (1, 2, 0, 2, 1, 3, 2) for f in ("ON", "OFF")]
    for kind, enc in (("binary", ir.BinEnc(lk)), ("string", ir.StrEnc("US-ASCII", lk)),
                      ("binary", ir.BinEnc(ir.DynLen("MODE", False, 8, 8))), ("string", ir.StrEnc("UTF-8", ir.DynLen("MODE", True, 8, 0), "3b"))):
        item += 1
        if not ctx.mine(item):
            continue
        t = ir.PType("T", kind, enc, None)
        for route in routes:
            lib = make(ctx, rng, t, route)
            for rep in range(3):
                order = list(seq_assigns)
                rng.shuffle(order)
                for asg in order:
                    asg = dict(asg)
                    if isinstance(enc.length, ir.DynLen):
                        asg["MODE"] = ("float", float(asg["MODE"][1] + 1), asg["MODE"][1] + 1) if enc.length.calibrated else asg["MODE"]
                    try:
                        env = {k: ref.Val(v[1], v[2], v[0]) for k, v in asg.items()}
                        L = ref.length_of(enc.length, env)
                    except ref.ModelError:
                        L = 8
                    fb = gen.string_bits(rng, enc, L) if kind == "string" else "".join(rng.choice("01") for _ in range(L))
                    ctx.count("sequence.cases")
                    run_case(ctx, rng, t, lib, asg, fb, rng.randrange(8), route, "sequence-on-one-object")
    # ---- seeded random -----------------------------------------------------------------------------------------------------
    for i in range(ctx.size(10_000, 3_000_000) // ctx.nshards):
        charset = rng.choice(CHARSETS)
        unit = ref.CODE_UNIT[charset]
        if rng.random() < 0.3:
            L = rng.choice([rng.randrange(0, 130), 8 * rng.randrange(0, 40)])
            spec, assign = rng.choice(length_variants(rng, L, 1))
            t = ir.PType("T", "binary", ir.BinEnc(spec), None)
            fb = "".join(rng.choice("01") for _ in range(L))
        else:
            L = rng.choice([8 * unit * rng.randrange(0, 12), rng.randrange(0, 100)])
            spec, assign = rng.choice([v for v in length_variants(rng, L, 8 * unit) if v[0] != 0])
            delim = rng.choice(("whole", "term", "lead"))
            enc = ir.StrEnc(charset, spec, term_for(rng, charset) if delim == "term" else None,
                            rng.choice([3, 5, 8, 12, 16]) if delim == "lead" else None)
            t = ir.PType("T", "string", enc, None)
            hs = hostile_contents(rng, enc, L)
            fb = rng.choice(hs)[1] if hs and rng.random() < 0.2 else gen.string_bits(rng, enc, L)
        route = routes[i % 3]
        try:
            lib = make(ctx, rng, t, route)
        except Exception as ex:  # noqa: BLE001
            ctx.violation(f"construct/{type(ex).__name__}/{feature(t)}", f"could not construct {t.enc!r}: {ex!r}", {"type": repr(t)})
            continue
        run_case(ctx, rng, t, lib, assign, fb, rng.randrange(8), route, "random")
