"""C19 — CLI listings show each packet once, in order, and never hang or crash.

Monitor shape T with in-process recorders (no screen scraping): rich.table.Table.add_row, cli.pretty.pprint and
cli.console.print are wrapped to record what the commands hand to the renderer; the commands are run through
click.testing.CliRunner on files of n = 0..N packets (every n to beyond the elision threshold), indices 0..n+1,
truncated and empty files. Termination is decided on logical steps: packets.ccsds_generator (both the name the
CLI module imported and the module attribute the definition uses) is wrapped with a yield budget of len(file)//7+2.
"""
import os
import tempfile

from vmon import docs
from vmon.libutil import monitored

LEVEL = "exploration"
SHARDS = {"quick": 8, "thorough": 16}
MUST = ["recorder.rows", "describe.real_process", "recorder.pprint", "recorder.console", "describe.runs", "parse.runs", "parse.index_valid", "parse.index_out_of_range", "files.empty", "files.truncated", "files.unrecognized_apids", "files.idle_or_zero_apid", "files.prefixed_skip_header_bytes",
        "n.le10", "n.gt10", "parse.beyond_max_items", "parse.with_display_options", "files.duplicate_packets", "flags.none", "flags.-q", "flags.--quiet"]
RULE = ("case = (packet file of n packets, command, packet index); the recorded rows / pretty-printed object / console "
        "messages are compared with the expectation computed from the packet list: every row once in order for "
        "n<=10, else first five + one ellipsis row + last five; parse --packet i shows packet i for 0<=i<n and an "
        "out-of-range message otherwise; exit code 0 and no exception in the click result; yield budget not exceeded. "
        "Enumerated completely: every n in 0..14 (thorough 0..40) x every index 0..n+1, plus truncations of the file "
        "at every offset of a 3-packet file and the empty file; files of 21-30 packets with --max-items/--max-string; files "
        "with byte-identical packets; files holding packets of APIDs the definition does not describe (8 patterns x every "
        "index up to two beyond the listed packets: --packet i must show the i-th packet the command lists without "
        "--packet); files with foreign prefix bytes under --skip-header-bytes. distinct_nontrivial = distinct (command, n class, "
        "index class, file class) signatures with n class in {0,1,2..5,6..9,10,11,12+}; n=1 describe on an intact file "
        "is the trivial case and is excluded.")
ASSUMPTIONS = ["what rich renders from the recorded rows/objects is rich's business; the recorders sit at the call boundary",
               "negative packet indices are outside the stated quantifier (0..n+1) and are not driven"]


class Budget(Exception):
    pass


class Rec:
    def __init__(self):
        self.rows, self.pprinted, self.printed = [], [], []
        self.suppressed = 0


def install(rec_holder):
    """wrap the renderer boundary and the framer once per process"""
    import rich.table
    from space_packet_parser import cli, packets
    if getattr(cli, "_vmon_wrapped", False):
        return
    cli._vmon_wrapped = True
    orig_add_row = rich.table.Table.add_row

    def add_row(self, *a, **kw):
        if a and all(isinstance(x, str) for x in a):
            # the listing's rows are plain strings; rich's own log handler also builds tables (of Text objects) for log lines
            rec_holder["rec"].rows.append(tuple(a))
        return orig_add_row(self, *a, **kw)
    rich.table.Table.add_row = add_row
    # the recorders sit on rich's own entry points, so that it does not matter through which name the CLI reaches them
    import rich.console
    import rich.pretty
    orig_pprint = rich.pretty.pprint

    def pprint(obj, *a, **kw):
        rec_holder["rec"].pprinted.append(obj)
        return orig_pprint(obj, *a, **kw)
    rich.pretty.pprint = pprint
    for name, val in list(vars(cli).items()):          # names bound with `from rich.pretty import pprint`
        if val is orig_pprint:
            setattr(cli, name, pprint)
    orig_print = rich.console.Console.print

    def cprint(self, *a, **kw):
        if a and isinstance(a[0], rich.table.Table):
            pass                                       # the table itself: its rows were recorded by add_row
        rec_holder["rec"].printed.append(a)
        if getattr(self, "quiet", False):
            rec_holder["rec"].suppressed += 1          # rich prints nothing while Console.quiet is set
        return orig_print(self, *a, **kw)
    rich.console.Console.print = cprint
    orig_gen = packets.ccsds_generator

    def budgeted(binary_data, **kw):
        n = 0
        for p in orig_gen(binary_data, **kw):
            n += 1
            if n > rec_holder["budget"]:
                raise Budget(f"framer yielded more than {rec_holder['budget']} packets")
            yield p
    packets.ccsds_generator = budgeted
    for name, val in list(vars(cli).items()):          # the name(s) under which the CLI imported the framer
        if val is orig_gen:
            setattr(cli, name, budgeted)


def nclass(n):
    return "0" if n == 0 else "1" if n == 1 else "2..5" if n <= 5 else "6..9" if n <= 9 else "10" if n == 10 else "11" if n == 11 else "12+"


class Buffered:
    """violations are buffered and only reported if the recorders observed the renderer boundary at all during the run
    (if the CLI were refactored to render differently, the recorders would see nothing: that is inconclusive, not a violation)"""

    def __init__(self, ctx):
        self.ctx, self.buf = ctx, []

    def violation(self, *a, **kw):
        self.buf.append((a, kw))

    def __getattr__(self, name):
        return getattr(self.ctx, name)

    def flush(self):
        from vmon.core import HarnessError
        seen = self.ctx.counters["recorder.rows"] + self.ctx.counters["recorder.pprint"] + self.ctx.counters["recorder.console"]
        if self.buf and seen == 0:
            raise HarnessError("the CLI recorders observed no add_row/pprint/console.print call in the whole run")
        for a, kw in self.buf:
            self.ctx.violation(*a, **kw)


def run(real_ctx):
    ctx = Buffered(real_ctx)
    try:
        _run(ctx)
    finally:
        ctx.flush()


def _run(ctx):
    from click.testing import CliRunner
    from space_packet_parser import cli, packets
    holder = {"rec": Rec(), "budget": 10}
    install(holder)
    rng = ctx.rng("c19")
    scratch = tempfile.mkdtemp(prefix="vmon-c19-", dir=os.environ.get("VMON_SCRATCH"))
    defpath = os.path.join(scratch, "def.xml")
    with open(defpath, "wb") as f:
        f.write(docs.header_plus_blob_doc())
    # a second definition that only describes APID 11 (abstract root, one inheriting container): other APIDs are unrecognized
    defpath_apid = os.path.join(scratch, "def_apid11.xml")
    with open(defpath_apid, "wb") as f:
        blob = docs.header_plus_blob_doc().decode()
        t = blob[blob.index("<xtce:BinaryParameterType"):blob.index("</xtce:BinaryParameterType>") + len("</xtce:BinaryParameterType>")]
        f.write(docs.header_only_doc(
            extra_types=t, extra_params='<xtce:Parameter name="BLOB" parameterTypeRef="BLOB_Type"/>', root_abstract=True,
            extra_containers='<xtce:SequenceContainer name="P11"><xtce:EntryList><xtce:ParameterRefEntry parameterRef="BLOB"/>'
                             '</xtce:EntryList><xtce:BaseContainer containerRef="CCSDSPacket"><xtce:RestrictionCriteria>'
                             '<xtce:Comparison parameterRef="PKT_APID" value="11" useCalibratedValue="false"/>'
                             '</xtce:RestrictionCriteria></xtce:BaseContainer></xtce:SequenceContainer>'))
    runner = CliRunner()

    def mkpackets(n):
        return [bytes(packets.create_ccsds_packet(bytes(rng.getrandbits(8) for _ in range(rng.choice([1, 2, 5, 30]))),
                                                  apid=rng.choice([rng.randrange(2048), rng.randrange(2048), 2047, 0, 2046]),
                                                  sequence_count=rng.choice([i % 16384, rng.randrange(16384), 16383 - i % 8192, 8192 + i]),
                                                  version_number=rng.randrange(8), type=rng.randrange(2),
                                                  secondary_header_flag=rng.randrange(2), sequence_flags=rng.randrange(4)))
                for i in range(n)]

    def header_row(p):
        h = int.from_bytes(p[:6], "big")
        return (str(h >> 45), str(h >> 44 & 1), str(h >> 43 & 1), str(h >> 32 & 0x7FF), str(h >> 30 & 3), str(h >> 16 & 0x3FFF),
                str(h & 0xFFFF))

    def record_starts(data, skip):
        out, pos = [], 0
        while len(data) - pos >= skip + 6:
            n = skip + 7 + int.from_bytes(data[pos + skip + 4:pos + skip + 6], "big")
            if len(data) - pos < n:
                break
            out.append(pos)
            pos += n
        return out

    def frames(data):
        out, pos = [], 0
        while len(data) - pos >= 6:
            n = 7 + int.from_bytes(data[pos + 4:pos + 6], "big")
            if len(data) - pos < n:
                break
            out.append(data[pos:pos + n])
            pos += n
        return out

    flag_cycle = [["--quiet"], ["-q"], [], ["--log-level", "ERROR"], ["-v"], ["--quiet"], [], ["--log-level", "DEBUG"], ["--verbose"]]

    def invoke(args, data):
        path = os.path.join(scratch, "pkts.bin")
        with open(path, "wb") as f:
            f.write(data)
        holder["rec"] = Rec()
        holder["budget"] = len(data) // 7 + 2
        full = [a if a != "FILE" else path for a in args]
        # the global logging flags must not change what the commands show; they are rotated so that sequences such as
        # "-q" followed by a run without it occur in one process
        flags = flag_cycle[ctx.counters["evaluations"] % len(flag_cycle)]
        ctx.count("flags." + (flags[0] if flags else "none"))
        # every invocation starts from an unconfigured logging system, like a fresh process (logging.basicConfig, which the group
        # calls, does nothing once the root logger has handlers): the global flags then really take effect each time
        import logging as _logging
        _root = _logging.getLogger()
        for h_ in list(_root.handlers):
            _root.removeHandler(h_)
        _root.setLevel(_logging.WARNING)
        res = monitored(runner.invoke, cli.spp, flags + full)
        if holder["rec"].suppressed:
            ctx.violation(f"output-suppressed/{args[0]}/flags={flags[0] if flags else 'none'}",
                          f"the console was silenced (Console.quiet) while `{args[0]}` printed its result; global flags {flags}", {"args": args[:1], "flags": flags})
        out = getattr(res.value, "output", "") or ""
        holder["output"] = out
        ctx.count("recorder.rows", len(holder["rec"].rows))
        ctx.count("recorder.pprint", len(holder["rec"].pprinted))
        ctx.count("recorder.console", len(holder["rec"].printed))
        return holder["rec"], res

    def describe(data, fclass):
        pk = frames(data)
        n = len(pk)
        rec, res = invoke(["describe-packets", "FILE"], data)
        ctx.count("evaluations")
        ctx.count("describe.runs")
        ctx.count("n.le10" if n <= 10 else "n.gt10")
        if (n, fclass) != (1, "intact"):
            ctx.sig("describe", nclass(n), fclass)
        wit = {"command": "describe-packets", "n": n, "file_class": fclass, "file_len": len(data), "rows_recorded": len(rec.rows)}
        r = res.value
        if res.exc is not None or r is None:
            ctx.violation(f"describe/harness-exception/{type(res.exc).__name__}", repr(res.exc), wit)
            return
        if isinstance(r.exception, Budget):
            ctx.violation(f"describe/nontermination/{fclass}", str(r.exception), wit)
            return
        if r.exception is not None or r.exit_code != 0:
            ctx.violation(f"describe/crash/{type(r.exception).__name__}/n={nclass(n)}/{fclass}", f"exit {r.exit_code}, exception {r.exception!r}", wit)
            return
        rows = [header_row(p) for p in pk]
        if n == 0 and not holder.get("output", "").strip():
            ctx.violation("describe/empty/no-message-in-output", "nothing at all reached the command's output for a file without packets", wit)
        if n == 0:
            exp = []
            if rec.rows:
                ctx.violation("describe/empty/rows-for-no-packets", "rows were produced for a file without packets", wit)
        elif n <= 10:
            exp = rows
        else:
            exp = rows[:5] + [("...",) * 7] + rows[-5:]
        def row_matches(got, want):
            """the seven header strings appear, in order, among the cells of the row (extra columns are not an error);
            an ellipsis row is any row without a digit"""
            if want == ("...",) * 7:
                return not any(ch.isdigit() for cell in got for ch in cell)
            it = iter(got)
            return all(any(cell == w for cell in it) for w in want)
        if len(rec.rows) != len(exp) or not all(row_matches(g, w) for g, w in zip(rec.rows, exp)):
            dup = len(rec.rows) > len(exp)
            ctx.violation(f"describe/rows/{'duplicated' if dup else 'wrong'}/n={nclass(n)}",
                          f"{len(rec.rows)} rows recorded, expected {len(exp)} (n={n})", dict(wit, got=rec.rows[:14], expected=exp[:14]))

    def parse(data, idx, fclass, extra=(), definition=None, skip=0):
        pk = frames(data) if not skip else [data[i + skip:i + skip + 7 + int.from_bytes(data[i + skip + 4:i + skip + 6], "big")]
                                            for i in record_starts(data, skip)]
        if definition is not None:
            pk = [p for p in pk if int.from_bytes(p[:2], "big") & 0x7FF == 11]     # the packets that definition describes
        n = len(pk)
        args = ["parse", "FILE", definition or defpath] + ([] if idx is None else ["--packet", str(idx)]) + list(extra) + \
            (["--skip-header-bytes", str(skip)] if skip else [])
        rec, res = invoke(args, data)
        ctx.count("evaluations")
        ctx.count("parse.runs")
        iclass = "none" if idx is None else "valid" if idx < n else "n" if idx == n else "n+1"
        if idx is not None:
            ctx.count("parse.index_valid" if idx < n else "parse.index_out_of_range")
        ctx.sig("parse", nclass(n), iclass, fclass)
        wit = {"command": "parse", "n": n, "index": idx, "file_class": fclass, "file_len": len(data), "extra_options": list(extra)}
        r = res.value
        if res.exc is not None or r is None:
            ctx.violation(f"parse/harness-exception/{type(res.exc).__name__}", repr(res.exc), wit)
            return
        if isinstance(r.exception, Budget):
            ctx.violation(f"parse/nontermination/{fclass}", str(r.exception), wit)
            return
        if r.exception is not None or r.exit_code != 0:
            ctx.violation(f"parse/crash/{type(r.exception).__name__}/index={iclass}", f"exit {r.exit_code}, exception {r.exception!r}", wit)
            return

        def same_packet(obj, raw):
            return isinstance(obj, packets.CCSDSPacket) and bytes(obj.raw_data) == raw and \
                tuple(str(int(v)) for v in list(obj.values())[:7]) == header_row(raw) and bytes(obj["BLOB"]) == raw[6:]
        if idx is None:
            ok = len(rec.pprinted) == 1 and isinstance(rec.pprinted[0], list) and len(rec.pprinted[0]) == n and \
                all(same_packet(o, p) for o, p in zip(rec.pprinted[0], pk))
            if not ok:
                ctx.violation("parse/all/wrong-object", f"pretty-printed object is not the list of the {n} parsed packets", wit)
        elif idx < n:
            if len(rec.pprinted) != 1 or not same_packet(rec.pprinted[0], pk[idx]):
                ctx.violation("parse/index/wrong-packet", f"--packet {idx} did not show packet {idx}", wit)
        else:
            # wording is not part of the property: a message = something printed through the console that reaches the output
            said = bool(rec.printed) and bool(holder.get("output", "").strip())
            if rec.pprinted or not said:
                ctx.violation(f"parse/index/no-out-of-range-message/index={iclass}", f"--packet {idx} with {n} packets: printed {rec.printed!r}, pprinted {len(rec.pprinted)} objects", wit)

    def real_process(n, ioenc):
        """the command as a real child process whose standard output uses the given encoding (a pipe / a terminal that cannot encode
        non-ASCII text): exit status 0 and the expected rows, read from the text it printed"""
        import re
        import subprocess
        import sys
        from vmon.core import REPO
        pk = mkpackets(n)
        path = os.path.join(scratch, "real.bin")
        with open(path, "wb") as f:
            f.write(b"".join(pk))
        env = dict(os.environ, PYTHONPATH=REPO, PYTHONIOENCODING=ioenc, COLUMNS="240", NO_COLOR="1", TERM="dumb")
        p_ = subprocess.run([sys.executable, "-c", "from space_packet_parser.cli import spp; spp()", "describe-packets", path], capture_output=True, timeout=600, env=env)
        ctx.count("evaluations")
        ctx.count("describe.real_process")
        ctx.sig("describe-real-process", nclass(n), ioenc)
        wit = {"command": "describe-packets (child process)", "n": n, "stdout_encoding": ioenc, "stderr": p_.stderr.decode("latin-1")[-400:]}
        if p_.returncode != 0:
            ctx.violation(f"describe/real-process/exit-status/n={nclass(n)}/{ioenc}", f"exit status {p_.returncode} listing {n} packets with a {ioenc} standard output", wit)
            return
        text = p_.stdout.decode(ioenc.split(":")[0], "replace")
        got = []
        for line in text.splitlines():
            cells = [c.strip() for c in re.split(r"[|\u2502\u2503]", line)]
            cells = [c for c in cells if c]
            if len(cells) >= 7 and all(c.isdigit() for c in cells):
                got.append(tuple(cells[-7:]))
        rows = [header_row(x) for x in pk]
        exp = rows if n <= 10 else rows[:5] + rows[-5:]
        if got != exp:
            ctx.violation(f"describe/real-process/rows/n={nclass(n)}/{ioenc}", f"{len(got)} header rows read from the child's output, expected {len(exp)} (n={n})", dict(wit, got=got[:12], expected=exp[:12]))

    try:
        if ctx.shard == 3 % ctx.nshards:
            for n_, enc_ in ((0, "ascii"), (3, "ascii"), (10, "ascii"), (11, "ascii"), (25, "ascii"), (13, "latin-1"), (13, "utf-8"), (12, "cp1252")):
                real_process(n_, enc_)
        nmax = ctx.size(16, 120)
        item = 0
        for n in range(0, nmax + 1):
            pk = mkpackets(n)
            data = b"".join(pk)
            item += 1
            if ctx.mine(item):
                describe(data, "intact" if n else "empty")
                if n == 0:
                    ctx.count("files.empty")
                if n == 12:
                    ctx.sample({"n": n, "expected_rows": "5 + ellipsis + 5", "first_header_row": header_row(pk[0])})
            for idx in [None] + list(range(0, n + 2)):
                item += 1
                if ctx.mine(item):
                    parse(data, idx, "intact" if n else "empty")
                    if n == 0:
                        ctx.count("files.empty")
        # display-limit options must not interfere with --packet: files beyond the default --max-items (20)
        for n in (21, 22, 25, 30):
            pk = mkpackets(n)
            data = b"".join(pk)
            for idx in (0, 19, 20, 21, n - 1, n, n + 1):
                item += 1
                if ctx.mine(item):
                    parse(data, idx, "intact")
                    ctx.count("parse.beyond_max_items")
            for extra, idxs in ((("--max-items", "3"), (0, 2, 3, 5, n - 1, n)), (("--max-items", "1", "--max-string", "2"), (1, n - 1)), (("--max-string", "1"), (0, n))):
                for idx in idxs:
                    item += 1
                    if ctx.mine(item):
                        parse(data, idx, "intact", extra)
                        ctx.count("parse.with_display_options")
        # files holding packets the definition does not describe (other APIDs): the index counts the packets the command
        # lists without --packet; no index may end in a traceback
        for n, pat in ((1, "u"), (2, "ur"), (3, "rur"), (4, "uurr"), (6, "rruurr"), (7, "ururuuu"), (12, "ruruurrruuur"), (5, "uuuuu")):
            pk = mkpackets(n)
            def with_apid(p, recognised):
                w = int.from_bytes(p[:2], "big")
                apid = 11 if recognised else (99 if w & 0x7FF == 11 else w & 0x7FF)
                return ((w & ~0x7FF) | apid).to_bytes(2, "big") + p[2:]
            pk = [with_apid(p, c == "r") for p, c in zip(pk, pat)]
            data = b"".join(pk)
            nrec = pat.count("r")
            for idx in [None] + list(range(0, nrec + 3)):
                item += 1
                if ctx.mine(item):
                    parse(data, idx, "unrecognized-apids", definition=defpath_apid)
                    ctx.count("files.unrecognized_apids")
        # foreign bytes before every packet, skipped with --skip-header-bytes
        for n in (0, 1, 3, 11):
            for skip in (1, 4):
                pk = mkpackets(n)
                data = b"".join(bytes([0xEE]) * skip + p for p in pk)
                for idx in [None, 0, n - 1, n, n + 1]:
                    item += 1
                    if ctx.mine(item) and (idx is None or idx >= 0):
                        parse(data, idx, "prefixed", skip=skip)
                        ctx.count("files.prefixed_skip_header_bytes")
        # files of idle / fill packets only (APID 2047) and of APID 0 only, below and beyond the elision threshold
        for n in (1, 3, 10, 12):
            for apid in (2047, 0):
                pk = [bytes(packets.create_ccsds_packet(bytes([j, 1 + j]), apid=apid, sequence_count=16383 - j)) for j in range(n)]
                data = b"".join(pk)
                item += 1
                if ctx.mine(item):
                    describe(data, "idle-apid" if apid == 2047 else "apid-0")
                    parse(data, n - 1, "idle-apid" if apid == 2047 else "apid-0")
                    parse(data, n, "idle-apid" if apid == 2047 else "apid-0")
                    ctx.count("files.idle_or_zero_apid")
        # files with byte-identical packets (idle / replayed packets) in head and tail
        for n in (2, 4, 7, 10, 11, 13, 24):
            uniq = mkpackets(3)
            pk = [uniq[i % 2] if i % 3 else uniq[2] for i in range(n)]
            if n > 5:
                pk[-1] = pk[0]
                pk[-3] = pk[1]
            data = b"".join(pk)
            item += 1
            if ctx.mine(item):
                describe(data, "duplicates")
                parse(data, n - 1, "duplicates")
                ctx.count("files.duplicate_packets")
        # truncations of a 3-packet file at every offset; and an 11-packet file cut inside the last packet
        pk = mkpackets(3)
        data = b"".join(pk)
        for c in range(1, len(data)):
            item += 1
            if ctx.mine(item):
                ctx.count("files.truncated")
                describe(data[:c], "truncated")
                parse(data[:c], None, "truncated")
                parse(data[:c], len(frames(data[:c])), "truncated")
                parse(data[:c], 0, "truncated")
        for n in (6, 11, 12):
            pk = mkpackets(n)
            data = b"".join(pk)
            item += 1
            if ctx.mine(item):
                ctx.count("files.truncated")
                describe(data[:-1], "truncated")
                parse(data[:-1], n - 1, "truncated")
        ctx.sample({"n": 3, "command": "parse --packet 3", "expectation": "out of range message, nothing pretty-printed"})
    finally:
        import shutil
        shutil.rmtree(scratch, ignore_errors=True)
