"""C09 — writing a definition to XTCE XML and loading it back preserves its meaning.

Monitor shape M: the comparison never goes through the library's own equality. For a generated IR `ir`:
  G = render(ir) (my writer) ; D = L(G) (library load) ; W = W(D) (library write) ; D2 = L(W)
  (1) structural: normalize(read_xml(W)) == normalize(read_xml(G)) == normalize(ir) with MY reader on both sides
      (sees linear adjustments, byte orders, selectors, abstract flags, units, descriptions, entry order);
  (2) object-built: normalize(read_xml(W(build_objects(ir)))) == normalize(ir);
  (3) W and L(W) must not raise for a representable definition;
  (4) decode equivalence: steered packets reaching the containers decode identically under D and D2 (and the model).
Non-default values of every defaulted attribute are forced by the generator's explicit/implicit rendering switch.
"""
from vmon import build, gen, harness, ir, reader, ref, render
from vmon.libutil import definition_to_bytes, load_definition, monitored
from vmon.props.c11 import plain_item, solo_result

LEVEL = "exploration"
SHARDS = {"quick": 16, "thorough": 16}
MUST = ["objects.listed_top-level", "roundtrip.written_after_use", "roundtrip.xml_route", "roundtrip.object_route", "decode.equivalence_packets", "selfcheck.reader", "bundled.documents",
        "directed.attributes"]
RULE = ("case = generated IR (every parameter-type kind, encoding, calibrator, criteria form, length specification, "
        "descriptions, units, abstract flags, inheritance) taken through load->write->load by both build routes; "
        "structure compared with an independent reader + canonical form, decoding compared on steered packets. "
        "Directed: one document per (attribute, non-default value) pair from a list of ~40 defaulted attributes, and the "
        "documents bundled with the repository. distinct_nontrivial = distinct (feature set of the document: type "
        "kinds x encoding variants x length-spec kinds x criteria forms present, build route) signatures; a document "
        "with only the CCSDS header is trivial and excluded.")
ASSUMPTIONS = ["empty descriptive text == absent; attributes equal to their XTCE default == omitted; 'signed' == 'twosComplement'; "
               "operator spellings compared by relation",
               "parameters and parameter types not referenced by any container have no representation in the object model and are not compared",
               "a fixed size of 0 bits is degenerate and not generated"]


def features(doc):
    from vmon.harness import enc_features
    fs = set()
    tm = doc.type_map()
    for t in doc.types[7:]:
        fs.add(t.kind + ":" + enc_features(t))
    for c in doc.containers:
        if isinstance(c.criteria, ir.BoolExpr):
            fs.add("crit:bool")
        elif c.criteria:
            fs.add("crit:list" if len(c.criteria) > 1 else "crit:single")
        if c.abstract:
            fs.add("abstract")
        if any(k == "c" for k, _ in c.entries):
            fs.add("nested")
    return fs


def roundtrip(ctx, doc, tag, route, rng, packets=8, style=("prefix", "xtce")):
    """returns True if everything held"""
    wit = {"doc": tag, "route": route}
    fs = sorted(features(doc))
    if route == "xml":
        G = render.render_doc(doc, ns_style=style, opts=render.Opts(explicit=None, rng=rng))
        back = reader.read_xml(G)
        ctx.count("selfcheck.reader")
        if reader.normalize(back, False) != reader.normalize(doc, False):
            from vmon.core import HarnessError
            raise HarnessError("renderer/reader self-check failed: " + str(reader.diff(reader.normalize(doc, False), reader.normalize(back, False))))
        prefix = style[1] if style[0] == "prefix" else None
        ld = monitored(load_definition, G, prefix)
        ctx.count("roundtrip.xml_route")
    else:
        # object-built definitions list either every container or only those that no other container nests
        listed = "top-level" if (len(fs) + len(doc.containers)) % 2 and "nested" in fs else "all"
        ctx.count(f"objects.listed_{listed}")
        ld = monitored(build.definition, doc, None, "xtce", listed)
        ctx.count("roundtrip.object_route")
        prefix = "xtce"
    ctx.count("evaluations")
    if fs:
        ctx.sig(route, *fs[:12])
    if ld.exc is not None:
        ctx.violation(f"{route}/load-or-build/{type(ld.exc).__name__}", f"could not obtain the definition: {ld.exc!r}", wit)
        return False
    D = ld.value
    used_first = (len(fs) + len(doc.params)) % 3 == 0
    if used_first:
        # a definition that has been in USE (it decoded packets) before it is written is the same definition
        import random as _random
        for raw in gen.gen_packets(_random.Random(f"C09/used/{tag}/{route}"), doc, 6):
            solo_result(D, raw)
        ctx.count("roundtrip.written_after_use")
    w = monitored(definition_to_bytes, D)
    if w.exc is not None:
        why = why_write(doc) if isinstance(w.exc, (KeyError, ValueError, TypeError)) else "-"
        ctx.violation(f"{route}/write/{type(w.exc).__name__}/{why}", f"to_xml raised {w.exc!r} for a representable definition", dict(wit, features=fs))
        return False
    W = w.value
    try:
        rW = reader.read_xml(W)
    except Exception as ex:  # noqa: BLE001
        ctx.violation(f"{route}/written-xml-unreadable/{type(ex).__name__}", f"my reader cannot read the written XML: {ex!r}", dict(wit, xml=W[:1500].decode(errors="replace")))
        return False
    a, b_ = reader.same_meaning(reader.normalize(doc), reader.normalize(rW))
    if a != b_:
        d = reader.diff(a, b_)
        ctx.violation(f"{route}/structure/{d}", f"written XML differs in meaning from the source at {d}", dict(wit, difference=d, features=fs))
        return False
    l2 = monitored(load_definition, W, prefix)
    if l2.exc is not None:
        ctx.violation(f"{route}/reload/{type(l2.exc).__name__}", f"the written XML does not load: {l2.exc!r}", dict(wit, xml=W[:1200].decode(errors="replace")))
        return False
    D2 = l2.value
    # ---- decode equivalence -------------------------------------------------------------------------------------------
    for raw in gen.gen_packets(rng, doc, packets):
        ctx.count("decode.equivalence_packets")
        ctx.count("evaluations")
        s1, s2 = solo_result(D, raw), solo_result(D2, raw)
        if s1 != s2:
            ctx.violation(f"{route}/decode-differs/{s1[0]}-vs-{s2[0]}", "a packet decodes differently before and after the write/load cycle",
                          dict(wit, raw=raw, before=str(s1)[:600], after=str(s2)[:600]))
            return False
    return True


def why_write(doc):
    """mechanism features that are known to matter for writing"""
    f = []
    if any(c.base and c.criteria is None for c in doc.containers):
        f.append("base-without-criteria")
    if any(t.kind in ("abstime", "reltime") and t.unit is None for t in doc.types):
        f.append("time-without-units")
    return ",".join(f) or "other"


# (attribute, document builder) pairs: each forces ONE defaulted attribute to a non-default value in a minimal document
def directed_docs():
    from vmon.props.c05 import header_types
    ts, ps = header_types("PKT_APID")
    base_entries = tuple(("p", p.name) for p in ps[:7])
    out = []

    def doc_with(t, extra_types=(), extra_params=(), conts=None, entries=None):
        types = tuple(ts) + tuple(extra_types) + (t,)
        params = tuple(ps) + tuple(extra_params) + (ir.Param("X", t.name),)
        root = ir.Container("CCSDSPacket", base_entries + tuple(entries or ()) + (("p", "X"),))
        return ir.Doc(types, params, tuple(conts or ()) + (root,))

    I = ir.IntEnc

    def C_(left, op, value):
        return ir.Condition(left, op, right_value=value, right_cal=False)
    lvl5 = ir.Or((C_("TYPE", "==", "0"), C_("VERSION", "==", "0")))
    lvl4 = ir.And((C_("PKT_LEN", ">=", "0"), lvl5))
    lvl3 = ir.Or((C_("SEQ_FLGS", "==", "3"), lvl4))
    lvl2 = ir.And((C_("VERSION", "<", "7"), lvl3))
    lvl1 = ir.Or((C_("TYPE", "==", "1"), lvl2))
    DEEP = ir.And((C_("PKT_APID", "==", "5"), lvl1))
    SINGLE = ir.And((ir.Or((C_("PKT_APID", "==", "5"),)),))
    SINGLE2 = ir.Or((ir.And((ir.Or((C_("TYPE", "==", "1"),)),)),))
    GROUPS = ir.And((ir.Or((C_("PKT_APID", "==", "5"), C_("TYPE", "==", "1"))), ir.Or((C_("VERSION", "==", "0"), C_("SEQ_FLGS", "==", "3")))))

    def ctx_type(*exprs):
        return ir.PType("X_T", "float", I(8, "unsigned", False, None,
                                          tuple(ir.ContextCal(ir.BoolExpr(e), ir.Poly(((float(k + 1), 1),))) for k, e in enumerate(exprs))))
    len_t = ir.PType("LEN_Type", "integer", I(4, "unsigned", False))
    len_p = ir.Param("LEN", "LEN_Type")
    le = (("p", "LEN"),)
    cases = {
        "IntegerDataEncoding@encoding=signed": ir.PType("X_T", "integer", I(12, "signed")),
        "IntegerDataEncoding@encoding=twosComplement": ir.PType("X_T", "integer", I(12, "twosComplement")),
        "IntegerDataEncoding@byteOrder=LSB": ir.PType("X_T", "integer", I(16, "unsigned", True)),
        "FloatDataEncoding@byteOrder=LSB": ir.PType("X_T", "float", ir.FloatEnc(32, "IEEE754", True)),
        "FloatDataEncoding@encoding=MILSTD_1750A": ir.PType("X_T", "float", ir.FloatEnc(32, "MILSTD_1750A")),
        "FloatDataEncoding@encoding=IEEE754_1985": ir.PType("X_T", "float", ir.FloatEnc(64, "IEEE754_1985")),
        "FloatDataEncoding@sizeInBits=16": ir.PType("X_T", "float", ir.FloatEnc(16)),
        "SplineCalibrator@order=1": ir.PType("X_T", "float", I(8, "unsigned", False, ir.Spline(((0.0, 1.0), (255.0, 2.0)), 1, False))),
        "SplineCalibrator@extrapolate=true": ir.PType("X_T", "float", I(8, "unsigned", False, ir.Spline(((1.0, 1.0), (5.0, 2.0)), 0, True))),
        "SplineCalibrator/step (two points share a raw value)": ir.PType("X_T", "float", I(8, "unsigned", False, ir.Spline(((0.0, 1.0), (100.0, 50.0), (100.0, 20.0), (255.0, 2.0)), 1, False))),
        "SplineCalibrator/step ascending": ir.PType("X_T", "float", I(8, "unsigned", False, ir.Spline(((0.0, 1.0), (100.0, 20.0), (100.0, 50.0), (255.0, 2.0)), 0, True))),
        "PolynomialCalibrator/17-digit coefficients": ir.PType("X_T", "float", I(16, "unsigned", False, ir.Poly(((5 / 9, 1), (-160 / 9, 0), (1 / 3, 2), (0.1 + 0.2, 3))))),
        "ContextCalibrator/17-digit coefficient": ir.PType("X_T", "float", I(8, "unsigned", False, None, (ir.ContextCal((ir.Comparison("PKT_APID", "5"),), ir.Poly(((2 / 3, 1), (1e-17 + 1 / 7, 0)))),))),
        "SplinePoint/17-digit coordinates": ir.PType("X_T", "float", ir.FloatEnc(64, "IEEE754", False, ir.Spline(((1 / 3, 2 / 3), (10 / 3, 0.1 + 0.2)), 1, True))),
        "PolynomialCalibrator/negative-exponent": ir.PType("X_T", "float", I(8, "unsigned", False, ir.Poly(((2.5, -1), (1e-12, 3))))),
        "Comparison@useCalibratedValue=false": ir.PType("X_T", "float", I(8, "unsigned", False, None, (ir.ContextCal((ir.Comparison("PKT_APID", "5", "==", False),), ir.Poly(((1.0, 1),))),))),
        "Comparison@comparisonOperator=<=": ir.PType("X_T", "float", I(8, "unsigned", False, None, (ir.ContextCal((ir.Comparison("PKT_APID", "5", "<="),), ir.Poly(((1.0, 1),))),))),
        "ContextMatch/ComparisonList": ir.PType("X_T", "float", I(8, "unsigned", False, None, (ir.ContextCal((ir.Comparison("PKT_APID", "5", ">"), ir.Comparison("TYPE", "0")), ir.Poly(((1.0, 1),))),))),
        "ContextMatch/BooleanExpression": ir.PType("X_T", "float", I(8, "unsigned", False, None, (ir.ContextCal(ir.BoolExpr(ir.Or((ir.Condition("PKT_APID", "==", right_value="5", right_cal=False), ir.Condition("TYPE", "!=", right_param="VERSION", left_cal=False, right_cal=False)))), ir.Poly(((1.0, 1),))),))),
        "Condition/ParameterInstanceRef@useCalibratedValue=false(left)": ir.PType("X_T", "float", I(8, "unsigned", False, None, (ir.ContextCal(ir.BoolExpr(ir.Condition("PKT_APID", ">=", right_value="5", left_cal=False, right_cal=False)), ir.Poly(((1.0, 1),))),))),
        "Condition/ParameterInstanceRef@useCalibratedValue=false(right)": ir.PType("X_T", "float", I(8, "unsigned", False, None, (ir.ContextCal(ir.BoolExpr(ir.Condition("PKT_APID", ">=", right_param="TYPE", left_cal=True, right_cal=False)), ir.Poly(((1.0, 1),))),))),
        "five levels of ANDed/ORed nesting": ctx_type(DEEP),
        "single-member groups nested in each other": ctx_type(SINGLE, SINGLE2),
        "groups whose only members are groups": ctx_type(GROUPS),
        "ANDed-in-ORed nesting": ir.PType("X_T", "float", I(8, "unsigned", False, None, (ir.ContextCal(ir.BoolExpr(ir.Or((ir.And((ir.Condition("PKT_APID", "==", right_value="5", right_cal=False), ir.Condition("TYPE", "==", right_value="1", right_cal=False))), ir.Condition("VERSION", "gt", right_value="2", right_cal=False)))), ir.Poly(((1.0, 1),))),))),
        "Enumeration (64-bit values a double cannot hold)": ir.PType("X_T", "enumerated", I(64, "unsigned"), None,
                                                                     ((2 ** 64 - 1, "MAX"), (2 ** 63 - 1, "HALF"), (2 ** 53 + 1, "ODD"), (7, "SEVEN"))),
        "Enumeration (64-bit signed values)": ir.PType("X_T", "enumerated", I(64, "twosComplement"), None,
                                                       ((-(2 ** 63), "MIN"), (-(2 ** 53) - 1, "NEGODD"), (2 ** 63 - 1, "MAX"))),
        "Enumeration (signed values)": ir.PType("X_T", "enumerated", I(4, "signed"), None, ((-8, "MIN"), (0, "ZERO"), (7, "MAX"))),
        "Enumeration (float encoded)": ir.PType("X_T", "enumerated", ir.FloatEnc(32), None, ((0.0, "Z"), (2.5, "TWOHALF"))),
        "UnitSet/Unit": ir.PType("X_T", "integer", I(8), "m/s^2"),
        "BooleanParameterType": ir.PType("X_T", "boolean", I(1)),
        "StringDataEncoding@encoding=UTF-16BE+TerminationChar": ir.PType("X_T", "string", ir.StrEnc("UTF-16BE", 64, "0000")),
        "StringDataEncoding@encoding=Windows-1252+LeadingSize": ir.PType("X_T", "string", ir.StrEnc("Windows-1252", 72, None, 8)),
        "StringDataEncoding@encoding=UTF-16+byteOrder": ir.PType("X_T", "string", ir.StrEnc("UTF-16", 32, None, None, ir.MSB)),
        "StringDataEncoding@encoding=UTF-32+byteOrder=LSB": ir.PType("X_T", "string", ir.StrEnc("UTF-32", 64, None, None, ir.LSB)),
        "AbsoluteTime scale+offset+epoch+units": ir.PType("X_T", "abstime", I(32), "s", (), "TAI", None, 0.001, 100.0),
        "AbsoluteTime offset only": ir.PType("X_T", "abstime", I(32), "s", (), None, None, None, 5.0),
        "AbsoluteTime scale 0 with offset (a constant time)": ir.PType("X_T", "abstime", I(32), "s", (), None, None, 0.0, 5.0),
        "RelativeTime scale 0 only": ir.PType("X_T", "reltime", I(16), "s", (), None, None, 0.0, None),
        "AbsoluteTime scale 1 offset 0": ir.PType("X_T", "abstime", I(32), "s", (), None, None, 1.0, 0.0),
        "AbsoluteTime scale only": ir.PType("X_T", "abstime", I(32), "s", (), "2000-01-01T00:00:00", None, 2.0, None),
        "AbsoluteTime without units": ir.PType("X_T", "abstime", I(32), None, (), "GPS"),
        "RelativeTime float encoded + OffsetFrom": ir.PType("X_T", "reltime", ir.FloatEnc(64), "us", (), None, "SRC_SEQ_CTR"),
    }
    for name, t in cases.items():
        out.append((name, doc_with(t)))
    dyn_cases = {
        "String DynamicValue@useCalibratedValue=false": ir.PType("X_T", "string", ir.StrEnc("UTF-8", ir.DynLen("LEN", False, 8, 0))),
        "String LinearAdjustment slope+intercept": ir.PType("X_T", "string", ir.StrEnc("UTF-8", ir.DynLen("LEN", True, 8, 16))),
        "String LinearAdjustment negative intercept": ir.PType("X_T", "string", ir.StrEnc("US-ASCII", ir.DynLen("LEN", False, 16, -8))),
        "String DynamicValue without adjustment": ir.PType("X_T", "string", ir.StrEnc("UTF-8", ir.DynLen("LEN", True, None, None))),
        "String DiscreteLookupList": ir.PType("X_T", "string", ir.StrEnc("UTF-8", ir.Lookup((((ir.Comparison("LEN", "3", "<", False),), 8), ((ir.Comparison("LEN", "3", ">="), ir.Comparison("TYPE", "0")), 24))))),
        "Binary DynamicValue@useCalibratedValue=false": ir.PType("X_T", "binary", ir.BinEnc(ir.DynLen("LEN", False, None, None))),
        "Polynomial with a repeated exponent": ir.PType("X_T", "float", I(8, "unsigned", False, ir.Poly(((2.0, 0), (0.5, 1), (0.25, 1))), ())),
        "Polynomial with terms in descending order": ir.PType("X_T", "float", I(8, "unsigned", False, ir.Poly(((0.5, 2), (3.0, 1), (2.0, 0))), ())),
        "Binary FixedValue=0": ir.PType("X_T", "binary", ir.BinEnc(0)),
        "Binary FixedValue=1": ir.PType("X_T", "binary", ir.BinEnc(1)),
        "Binary LinearAdjustment slope 1": ir.PType("X_T", "binary", ir.BinEnc(ir.DynLen("LEN", False, 1, 8))),
        "Binary LinearAdjustment intercept 0": ir.PType("X_T", "binary", ir.BinEnc(ir.DynLen("LEN", False, 8, 0))),
        "Binary LinearAdjustment": ir.PType("X_T", "binary", ir.BinEnc(ir.DynLen("LEN", True, 8, 3))),
        "Binary LinearAdjustment intercept only": ir.PType("X_T", "binary", ir.BinEnc(ir.DynLen("LEN", True, 1, 5))),
        "Binary DiscreteLookupList": ir.PType("X_T", "binary", ir.BinEnc(ir.Lookup((((ir.Comparison("LEN", "1"),), 5), ((ir.Comparison("LEN", "1", "!="),), 16))))),
    }
    for name, t in dyn_cases.items():
        out.append((name, doc_with(t, (len_t,), (len_p,), entries=le)))
    # the referenced length is calibrated to a FRACTIONAL value that the slope makes whole again (LEN counts bytes, calibrated to
    # 16-bit words: odd LEN -> x.5 words -> 16 * x.5 bits)
    half_t = ir.PType("LEN_Type", "integer", I(4, "unsigned", False, ir.Poly(((0.5, 1),)), ()))
    for name, t in {"Binary calibrated fractional reference": ir.PType("X_T", "binary", ir.BinEnc(ir.DynLen("LEN", True, 16, None))),
                    "Binary calibrated fractional reference + intercept": ir.PType("X_T", "binary", ir.BinEnc(ir.DynLen("LEN", True, 16, 8))),
                    "String calibrated fractional reference": ir.PType("X_T", "string", ir.StrEnc("US-ASCII", ir.DynLen("LEN", True, 16, 8)))}.items():
        out.append((name, doc_with(t, (half_t,), (len_p,), entries=le)))
    # container-level attributes
    xt = ir.PType("X_T", "integer", I(8))
    yt = ir.PType("Y_T", "integer", I(8))
    for name, child in {
        "SequenceContainer@abstract=true (child)": ir.Container("Child", (("p", "Y"),), "CCSDSPacket", (ir.Comparison("PKT_APID", "5"),), True),
        "RestrictionCriteria/ComparisonList": ir.Container("Child", (("p", "Y"),), "CCSDSPacket", (ir.Comparison("PKT_APID", "5"), ir.Comparison("TYPE", "0", "!=", False))),
        "RestrictionCriteria/BooleanExpression": ir.Container("Child", (("p", "Y"),), "CCSDSPacket", ir.BoolExpr(ir.And((ir.Condition("PKT_APID", "==", right_value="5", right_cal=False), ir.Or((ir.Condition("TYPE", "==", right_value="1", right_cal=False), ir.Condition("X", "<", right_param="VERSION", left_cal=False, right_cal=False))))))),
        "BaseContainer without RestrictionCriteria": ir.Container("Child", (("p", "Y"),), "CCSDSPacket", None),
        "descriptions": ir.Container("Child", (("p", "Y"),), "CCSDSPacket", (ir.Comparison("PKT_APID", "5"),), False, 'short "q" & <b>', "long\ntext with  spaces"),
        "descriptions ending in blank lines": ir.Container("Child", (("p", "Y"),), "CCSDSPacket", (ir.Comparison("PKT_APID", "5"),), False, "short ", "first line  \n second line \n\n\n"),
        "descriptions of line breaks only": ir.Container("Child", (("p", "Y"),), "CCSDSPacket", (ir.Comparison("PKT_APID", "5"),), False, None, "\n\n"),
    }.items():
        types = tuple(ts) + (xt, yt)
        params = tuple(ps) + (ir.Param("X", "X_T", "sd of X", "ld of X"), ir.Param("Y", "Y_T"))
        root = ir.Container("CCSDSPacket", base_entries + (("p", "X"),), None, None, name.startswith("SequenceContainer@abstract"))
        out.append((name, ir.Doc(types, params, (root, child))))
    nested = ir.Container("Inner", (("p", "Y"),))
    root = ir.Container("CCSDSPacket", base_entries + (("c", "Inner"), ("p", "X")))
    out.append(("ContainerRefEntry", ir.Doc(tuple(ts) + (xt, yt), tuple(ps) + (ir.Param("X", "X_T"), ir.Param("Y", "Y_T")), (root, nested))))
    # names containing a double quote / other punctuation XTCE permits, referenced as base and as nested container
    q_nested = ir.Container('CAM_2"_BLOCK', (("p", "Y"),))
    q_child = ir.Container('CAM_2"_HK', (("c", 'CAM_2"_BLOCK'), ("p", "X")), "CCSDSPacket", (ir.Comparison("PKT_APID", "5"),))
    q_grand = ir.Container("CAM_(A)+B", (("p", "Y"),), 'CAM_2"_HK', (ir.Comparison("TYPE", "1"),))
    q_root = ir.Container("CCSDSPacket", base_entries, None, None, True)
    out.append(("container names with a double quote", ir.Doc(tuple(ts) + (xt, yt), tuple(ps) + (ir.Param("X", "X_T"), ir.Param("Y", "Y_T")),
                                                               (q_grand, q_child, q_root, q_nested))))
    # a Condition whose literal a double cannot hold, on a 64-bit parameter
    big_t = ir.PType("BIG_T", "integer", I(64, "unsigned"))
    c_hit = ir.Container("Exact", (("p", "Y"),), "CCSDSPacket", ir.BoolExpr(ir.Condition("BIG", "==", right_value="9007199254740993", right_cal=False)))
    c_near = ir.Container("Near", (("p", "X"),), "CCSDSPacket", ir.BoolExpr(ir.Condition("BIG", "==", right_value="9007199254740992", right_cal=False)))
    b_root = ir.Container("CCSDSPacket", base_entries + (("p", "BIG"),), None, None, True)
    out.append(("Condition literal beyond 2**53", ir.Doc(tuple(ts) + (xt, yt, big_t), tuple(ps) + (ir.Param("X", "X_T"), ir.Param("Y", "Y_T"), ir.Param("BIG", "BIG_T")),
                                                          (b_root, c_hit, c_near))))
    return out


def bundled(ctx):
    """the documents shipped with the repository: W(L(G)) must mean what G means and decode recorded packets identically"""
    import os
    from vmon import core
    base = os.path.join(core.REPO, "tests", "test_data")
    docs_ = [("test_xtce.xml", "xtce", None), ("test_xtce_default_namespace.xml", None, None), ("test_xtce_no_namespace.xml", None, None),
             ("jpss/jpss1_geolocation_xtce_v1.xml", "xtce", ("jpss/J01_G011_LZ_2021-04-09T00-00-00Z_V01.DAT1", {})),
             ("jpss/contrived_inheritance_structure.xml", "xtce", None),
             ("suda/suda_combined_science_definition.xml", "xtce", ("suda/sciData_2022_130_17_41_53.spl", {"skip_header_bytes": 4})),
             ("ctim/ctim_xtce_v1.xml", "xtce", ("ctim/ccsds_2021_155_14_39_51", {"root_container_name": "CCSDSTelemetryPacket"})),
             ("idex/idex_combined_science_definition.xml", "xtce", ("idex/sciData_2023_052_14_45_05", {}))]
    for i, (rel, prefix, pk) in enumerate(docs_):
        if not ctx.mine(i):
            continue
        with open(os.path.join(base, rel), "rb") as f:
            G = f.read()
        ctx.count("bundled.documents")
        ctx.count("evaluations")
        wit = {"document": rel}
        try:
            rG = reader.read_xml(G)
        except Exception as ex:  # noqa: BLE001
            ctx.note(f"my reader cannot read bundled document {rel}: {ex!r} (structure not compared)")
            rG = None
        ld = monitored(load_definition, G, prefix)
        if ld.exc is not None:
            ctx.violation(f"bundled/load/{type(ld.exc).__name__}", f"{rel}: {ld.exc!r}", wit)
            continue
        w = monitored(definition_to_bytes, ld.value)
        if w.exc is not None:
            ctx.violation(f"bundled/write/{type(w.exc).__name__}", f"{rel}: to_xml raised {w.exc!r}", wit)
            continue
        if rG is not None:
            a, b_ = reader.normalize(rG), reader.normalize(reader.read_xml(w.value))
            # the library models only what containers reference; compare the reachable part
            b_reach = b_
            a_reach = {k: ({n: v for n, v in a[k].items() if n in b_[k]} if isinstance(a[k], dict) and k in ("types", "params") else a[k]) for k in a}
            a_reach, b_reach = reader.same_meaning(a_reach, b_reach)
            if a_reach != b_reach:
                d = reader.diff(a_reach, b_reach)
                ctx.violation(f"bundled/structure/{d}", f"{rel}: written XML differs in meaning at {d}", dict(wit, difference=d))
        l2 = monitored(load_definition, w.value, prefix)
        if l2.exc is not None:
            ctx.violation(f"bundled/reload/{type(l2.exc).__name__}", f"{rel}: written XML does not load: {l2.exc!r}", wit)
            continue
        ctx.sig("bundled", rel)
        if pk:
            import warnings
            with warnings.catch_warnings():
                warnings.simplefilter("ignore")
                n = ctx.size(40, 400)
                with open(os.path.join(base, pk[0]), "rb") as f1, open(os.path.join(base, pk[0]), "rb") as f2:
                    g1, g2 = ld.value.packet_generator(f1, **pk[1]), l2.value.packet_generator(f2, **pk[1])
                    for k in range(n):
                        a1, a2 = monitored(next, g1), monitored(next, g2)
                        if a1.exc is not None or a2.exc is not None:
                            break
                        ctx.count("decode.equivalence_packets")
                        if plain_item(a1.value) != plain_item(a2.value):
                            ctx.violation("bundled/decode-differs", f"{rel}: recorded packet {k} decodes differently after the write/load cycle", wit)
                            break
                    g1.close()
                    g2.close()


def run(ctx):
    rng = ctx.rng("c09")
    styles = [("prefix", "xtce"), ("prefix", "xtce"), ("default",), ("none",), ("prefix", "custom")]
    for i in range(ctx.size(320, 40000)):
        if not ctx.mine(i):
            continue
        r = ctx.rng("doc", i)
        doc = gen.gen_document(r)
        roundtrip(ctx, doc, i, "xml", r, style=styles[i % len(styles)])
        roundtrip(ctx, doc, i, "objects", r)
        if i < 2:
            ctx.sample({"doc": i, "features": sorted(features(doc))[:14], "routes": ["xml", "objects"]})
    for j, (name, doc) in enumerate(directed_docs()):
        if not ctx.mine(j):
            continue
        ctx.count("directed.attributes")
        r = ctx.rng("directed", j)
        for route in ("xml", "objects"):
            ok = roundtrip(ctx, doc, "directed:" + name, route, r, packets=4)
            ctx.sig("directed", name, route, ok)
    bundled(ctx)
