"""C13 — primary-header construction and header accessors are exact inverses.

Monitors: (K) icontract postcondition on packets.create_ccsds_packet — the produced bytes must have the CCSDS
primary-header bit layout computed by the model (bit-string concatenation), followed by the data;
(direct) accessor values vs the given values, len accessor == len(data)-1, re-framing through ccsds_generator
yields exactly that one packet; framer->accessor direction: for framer-yielded packets the accessors must equal
the layout fields of the first six bytes (all 2^16 values of header words 1 and 2; word 3 via lengths);
rejection: out-of-range / empty / oversized inputs must raise ValueError and construct nothing.
"""
import io as io_mod
import itertools

import icontract

from vmon import bits
from vmon import sources as sources_mod
from vmon.contracts import MonitorViolation
from vmon.libutil import monitored

LEVEL = "exploration"
SHARDS = {"quick": 16, "thorough": 16}
MUST = ["accessor.cursor_moved_first", "accessor.order0", "accessor.order1", "accessor.order2", "create.contract_evaluations", "accessor.checks", "reframe.checks", "reframe.socket", "reframe.file-chunked", "reframe.file-short-reads", "reframe.bytes-prefixed", "reframe.twice", "reframe.beyond_20MB", "reframe.train", "reframe.train/bytesio-written", "reframe.train/bytesio-appended-between-framings", "reframe.train/file-read-size-on-packet-border", "reframe.train/socket-two-packets-per-delivery", "reframe.train/cut-in-last-packet", "reframe.equal_records_grid", "reframe.train/datagram-socket", "reframe.train/two-generators-requested-up-front", "reframe.train/equal-prefixed-records", "reframe.train/socket-two-packets-per-delivery/show_progress", "reject.checks", "word1.values", "word2.values"]
RULE = ("create_ccsds_packet is called on enumerated field values; a postcondition compares the bytes with the "
        "model's bit-string layout (3+1+1+11+2+14+16 bits, length field = len(data)-1) and the harness compares "
        "every accessor, re-frames the packet through ccsds_generator (bytes, BytesIO, and in rotation: chunked file reads, short reads, a "
        "scripted socket delivering it in pieces, with 0/1/3/8 foreign prefix bytes skipped, the packet twice; the packet inside a train of three constructed packets from a BytesIO filled by write() and framed twice, "
        "a partly read BytesIO, a file read with a size that ends on a packet border, a socket delivery holding two whole packets, "
        "show_progress=True; one stream of 322 "
        "maximum-size constructed packets > 20 MB) and checks rejection of "
        "out-of-range values. Enumerated completely: each field over its whole range with the others at "
        "{0,max,random}; all pairwise boundary combinations of the 7 fields; all 2^16 values of header words 1 "
        "and 2 through the framer->accessor direction; data lengths 1..600, 2^k+-1, 65535, 65536 (thorough: all "
        "65536 lengths). distinct_nontrivial = distinct (check kind, field, value class) signatures where "
        "value class in {min,max,interior-low,interior-high,out-of-range-low,out-of-range-high}; the all-defaults "
        "packet is the trivial case and is not counted.")
ASSUMPTIONS = ["non-integer field values are outside C13's domain and are not generated",
               "bool is not passed as a field value"]

FIELDS = [("version_number", 3), ("type", 1), ("secondary_header_flag", 1), ("apid", 11), ("sequence_flags", 2),
          ("sequence_count", 14)]
_state = {}


def model_header(vals, dlen):
    return "".join(bits.to_bits(vals[name], w) for name, w in FIELDS) + bits.to_bits(dlen - 1, 16)


def arm(ctx):
    from space_packet_parser import packets
    if _state:
        _state["ctx"] = ctx
        return
    _state["ctx"] = ctx

    def post_create(data, version_number, type, secondary_header_flag, apid, sequence_flags, sequence_count, result):
        c = _state["ctx"]
        c.count("create.contract_evaluations")
        vals = dict(version_number=version_number, type=type, secondary_header_flag=secondary_header_flag, apid=apid,
                    sequence_flags=sequence_flags, sequence_count=sequence_count)
        try:
            exp = bits.bits_to_bytes_left_padded(model_header({k: int(v) for k, v in vals.items()}, len(data))) + bytes(data)
        except AssertionError:
            c.violation("create/accepted-out-of-range", f"constructed a packet from out-of-range values {vals}, len(data)={len(data)}",
                        {"vals": vals, "len": len(data)})
            return True
        if bytes(result) != exp:
            c.violation("create/layout", f"header layout differs for {vals} len(data)={len(data)}: got {bytes(result)[:6].hex()} expected {exp[:6].hex()}",
                        {"vals": vals, "len": len(data), "got": bytes(result)[:12], "expected": exp[:12]})
        if not isinstance(result, packets.RawPacketData):
            c.violation("create/class", f"result is {result.__class__.__name__}", {"vals": vals})
        return True

    packets.create_ccsds_packet = icontract.ensure(post_create, error=MonitorViolation)(packets.create_ccsds_packet)


def vclass(v, w):
    mx = (1 << w) - 1
    return "min" if v == 0 else "max" if v == mx else "lo" if v <= mx // 2 else "hi"


def check_packet(ctx, vals, data, reframe=True):
    """construct, compare accessors, re-frame"""
    import io
    from space_packet_parser import packets
    ctx.count("evaluations")
    step = monitored(packets.create_ccsds_packet, data, **vals)
    wit = {"vals": vals, "len": len(data)}
    if step.exc is not None:
        ctx.violation(f"create/exception/{type(step.exc).__name__}", f"in-range construction raised {step.exc!r}", wit)
        return None
    p = step.value
    ctx.count("accessor.checks")
    if len(p) != 6 + len(data):
        ctx.violation("create/len", f"len {len(p)} != 6+{len(data)}", wit)
    # the accessors are cached per object: every access ORDER must give the same answers. Three orders are driven
    # on separate but identical objects: fields first, header_values first, fields in reverse order; each read twice.
    want = tuple(vals[n] for n, _ in FIELDS) + (len(data) - 1,)
    order = ctx.counters["accessor.checks"] % 3
    ctx.count(f"accessor.order{order}")
    names = [n for n, _ in FIELDS] + ["data_length"]
    if ctx.counters["accessor.checks"] % 2 == 0:
        # the header accessors describe the first six bytes whatever the read cursor is: move it first
        how = ctx.counters["accessor.checks"] % 8
        if how in (0, 4):
            p.read_as_int(min(13, 8 * len(p)))
        elif how == 2:
            p.read_as_bytes(8 * min(len(p), 7))
        else:
            p.pos = 8 * len(p)
        ctx.count("accessor.cursor_moved_first")
    if order == 1:
        hv = p.header_values
        if tuple(hv) != want:
            ctx.violation("accessor/header_values/read-first", f"header_values {hv}, expected {want}", wit)
    seq = list(reversed(names)) if order == 2 else names
    for rep in (0, 1):
        for name in seq:
            got = getattr(p, name)
            exp = want[names.index(name)]
            if got != exp or type(got) is not int:
                ctx.violation(f"accessor/{name}/{('fields-first', 'after-header_values', 'reverse-order')[order]}",
                              f"{name} accessor -> {got!r}, given {exp!r} (access order {order}, read {rep + 1})", wit)
    hv = p.header_values
    if tuple(hv) != want:
        ctx.violation("accessor/header_values", f"header_values {hv}, expected {want}", wit)
    if bytes(p[6:]) != data:
        ctx.violation("create/data", "data field differs", wit)
    if reframe:
        ctx.count("reframe.checks")
        raw = bytes(p)
        n = ctx.counters["reframe.checks"]
        rr = ctx.rng("reframe", n)
        k = (0, 3, 1, 8)[n % 4]                       # foreign bytes before the packet (skip_header_bytes)
        rec = bytes([0xEE]) * k + raw
        pieces = sorted({rr.randrange(1, len(rec)) for _ in range(rr.randrange(1, 4))}) if len(rec) > 1 else []
        if n % 3 == 0 and len(rec) > 1:
            pieces = sorted(set(pieces) | {len(rec) - 1 - rr.randrange(0, min(k + 1, len(rec) - 1))})   # a delivery border in the tail
        sizes = [b - a for a, b in zip([0] + pieces, pieces + [len(rec)])]
        sources = [("bytes", lambda: raw, {}), ("file", lambda: io.BytesIO(raw), {}),
                   ("file-chunked", lambda: sources_mod.RecordingFile(rec, "full"), {"skip_header_bytes": k, "buffer_read_size_bytes": sizes[0]}),
                   ("file-short-reads", lambda: sources_mod.RecordingFile(rec, "short", rr), {"skip_header_bytes": k, "buffer_read_size_bytes": max(1, len(rec) // 2)}),
                   ("socket", lambda: sources_mod.ScriptedSocket(sources_mod.cut(rec, sizes), closed_by_peer=True), {"skip_header_bytes": k}),
                   ("bytes-prefixed", lambda: rec, {"skip_header_bytes": k}),
                   ("twice", (lambda: raw + raw) if (n // 5) % 2 else (lambda: packets.RawPacketData(raw + raw)), {})]   # ... also as the bytes subclass the framer itself yields
        for kind, mk, kw in sources[:2] + [sources[2 + n % 5]]:
            out = []
            src = mk()
            g = packets.ccsds_generator(src, **kw)
            s = monitored(lambda: [out.append(x) for x in itertools.islice(g, 4)])
            g.close()
            if isinstance(src, sources_mod.ScriptedSocket):
                src.close()
            ctx.count(f"reframe.{kind}")
            want_out = [raw, raw] if kind == "twice" else [raw]
            if s.exc is not None or [bytes(x) for x in out] != want_out:
                ctx.violation(f"reframe/{kind}", f"re-framing the constructed packet from a {kind} source gave {len(out)} packets of lengths "
                              f"{[len(x) for x in out][:4]} / exc {s.exc!r}; expected {len(want_out)} x {len(raw)} bytes",
                              dict(wit, source=kind, options={a: b for a, b in kw.items()}, deliveries=sizes))
        # ---- the constructed packet inside a train of constructed packets: every one is re-framed, whatever the source ----
        prev = _state.get("prev_raw")
        _state["prev_raw"] = raw
        if prev is not None and len(prev) + len(raw) < 5000:
            import contextlib
            train = [prev, raw, prev]
            tb = b"".join(train)
            mode = n % 9
            passes = 1
            kw = {}
            if mode == 8 and len(tb) > 4000:
                return p        # a datagram longer than the framer's default 4096-byte recv() would be cut by the socket layer itself
            if mode == 8:
                # a message-oriented socket (UNIX datagram pair, as UDP telemetry arrives): one datagram per constructed packet,
                # or the three of them in one datagram; default read size
                import socket as _socket
                a_, b_ = _socket.socketpair(_socket.AF_UNIX, _socket.SOCK_DGRAM)
                b_.settimeout(30)
                try:
                    if (n // 9) % 2:
                        a_.send(tb)
                    else:
                        for pk_ in train:
                            a_.send(pk_)
                    g = packets.ccsds_generator(b_)
                    s = monitored(lambda: [bytes(x) for x in itertools.islice(g, 3)])
                    g.close()
                finally:
                    a_.close()
                    b_.close()
                ctx.count("reframe.train")
                ctx.count("reframe.train/datagram-socket")
                if s.exc is not None or s.value != train:
                    ctx.violation("reframe/train/datagram-socket", f"three constructed packets sent over a datagram socket re-framed as "
                                  f"{[len(x) for x in (s.value or [])]} / exc {s.exc!r}", dict(wit, source="datagram socketpair"))
                return p
            if mode in (6, 7):
                import contextlib
                with contextlib.redirect_stdout(io.StringIO()):
                    if mode == 6:
                        # two generators requested up front over the same file object, consumed one after the other
                        src = io.BytesIO(tb)
                        g1, g2 = packets.ccsds_generator(src), packets.ccsds_generator(src)
                        outs = [[bytes(x) for x in itertools.islice(g, 5)] for g in (g1, g2)]
                        kind = "train/two-generators-requested-up-front"
                        good = outs == [train, train]
                        detail = f"{[len(o) for o in outs]} packets from the two generators"
                    else:
                        # N equal records (prefix + packet) from a source of known length: every count and prefix length
                        N, k2 = 2 + (n // 9) % 7, (1, 4, 7, 8, len(raw))[(n // 63) % 5]
                        recs = (bytes([0xEE]) * k2 + raw) * N
                        src = recs if (n // 9) % 2 else io.BytesIO(recs)
                        got = [bytes(x) for x in itertools.islice(packets.ccsds_generator(src, skip_header_bytes=k2), N + 2)]
                        kind = "train/equal-prefixed-records"
                        good = got == [raw] * N
                        detail = f"{len(got)} packets from {N} records of {k2}+{len(raw)} bytes"
                ctx.count("reframe.train")
                ctx.count(f"reframe.{kind}")
                if not good:
                    ctx.violation(f"reframe/{kind}", f"re-framing gave {detail}", dict(wit, source=kind))
                return p
            if mode == 5:
                # the stream ends part-way through the last packet (its header complete): whatever the framer yields must still be a
                # packet whose accessors agree with its own first six bytes - i.e. only the complete ones
                cutlen = len(tb) - rr.randrange(1, max(2, len(prev) - 6))
                src_kind = (n // 9) % 3
                out = []
                with contextlib.redirect_stdout(io.StringIO()):
                    src = tb[:cutlen] if src_kind == 0 else io.BytesIO(tb[:cutlen]) if src_kind == 1 else \
                        sources_mod.ScriptedSocket([tb[:cutlen]], closed_by_peer=True)
                    g = packets.ccsds_generator(src)
                    s = monitored(lambda: [out.append(x) for x in itertools.islice(g, 5)])
                    g.close()
                    if src_kind == 2:
                        src.close()
                ctx.count("reframe.train")
                ctx.count("reframe.train/cut-in-last-packet")
                for x in out:
                    word = int.from_bytes(bytes(x)[4:6], "big")
                    if x.data_length != word or len(x) != 7 + word:
                        ctx.violation("reframe/train/cut-in-last-packet/accessor-vs-length-word",
                                      f"a stream cut inside its last packet: the framer yielded {len(x)} bytes whose length word says {word} "
                                      f"(data_length accessor {x.data_length})", dict(wit, source=("bytes", "bytesio", "socket")[src_kind], cut=cutlen))
                        break
                if s.exc is None and [bytes(x) for x in out] != train[:2]:
                    ctx.violation("reframe/train/cut-in-last-packet/packets", f"expected the two complete packets, got lengths {[len(x) for x in out]}", dict(wit, cut=cutlen))
                return p
            if mode == 0:
                src = io.BytesIO()            # filled by write(): its position is at the end when it is handed over
                src.write(tb)
                kind, passes = "train/bytesio-written", 2     # ... and the same object is framed a second time
            elif mode == 1:
                src = sources_mod.RecordingFile(tb, "full")
                kind, kw = "train/file-read-size-on-packet-border", {"buffer_read_size_bytes": len(prev) if (n // 9) % 2 else len(prev) + len(raw)}
            elif mode == 2:
                src = sources_mod.ScriptedSocket([prev + raw, prev], closed_by_peer=True)     # one delivery holds two whole packets
                kind, kw = "train/socket-two-packets-per-delivery", {"show_progress": bool((n // 9) % 2)}
            elif mode == 3:
                src, kind, kw = tb, "train/bytes", {"show_progress": True}
            else:
                src = io.BytesIO(tb)
                src.read(len(prev) + 3)       # partly read by someone else before it is handed over
                kind = "train/bytesio-partly-read"
            for ps in range(passes):
                out = []
                if ps == 1:
                    # between the two framings of the same file object the writer appends one more packet
                    src.seek(0, 2)
                    src.write(raw)
                    train = train + [raw]
                    ctx.count("reframe.train/bytesio-appended-between-framings")
                with contextlib.redirect_stdout(io.StringIO()):
                    g = packets.ccsds_generator(src, **kw)
                    s = monitored(lambda: [out.append(x) for x in itertools.islice(g, 5)])
                    g.close()
                ctx.count("reframe.train")
                ctx.count(f"reframe.{kind}")
                if kw.get("show_progress"):
                    ctx.count(f"reframe.{kind}/show_progress")
                if s.exc is not None or [bytes(x) for x in out] != train:
                    ctx.violation(f"reframe/{kind}{'/second-pass' if ps else ''}", f"a train of 3 constructed packets ({[len(x) for x in train]} bytes) re-framed from {kind} "
                                  f"(pass {ps + 1}) as {len(out)} packets of lengths {[len(x) for x in out][:5]} / exc {s.exc!r}",
                                  dict(wit, source=kind, options=dict(kw), train_lengths=[len(x) for x in train]))
                    break
            if isinstance(src, sources_mod.ScriptedSocket):
                src.close()
    return p


def run(ctx):
    from space_packet_parser import packets
    bits.selftest()
    arm(ctx)
    rng = ctx.rng("c13")
    default = dict(version_number=0, type=0, secondary_header_flag=0, apid=2047, sequence_flags=3, sequence_count=0)

    def rnd_vals():
        return {n: rng.randrange(0, 1 << w) for n, w in FIELDS}

    # ---- each field over its whole range, others at {0, max, random} -----------------------------------
    item = 0
    for name, w in FIELDS:
        for v in range(1 << w):
            item += 1
            if not ctx.mine(item):
                continue
            for mode in ("zero", "max", "rand"):
                vals = ({n: 0 for n, _ in FIELDS} if mode == "zero" else
                        {n: (1 << ww) - 1 for n, ww in FIELDS} if mode == "max" else rnd_vals())
                vals[name] = v
                data = bytes(rng.getrandbits(8) for _ in range(rng.choice([1, 2, 5, 17])))
                check_packet(ctx, vals, data, reframe=(v % 97 == 0 or w <= 3))
                if vals != default:
                    ctx.sig("field", name, vclass(v, w), mode)
    ctx.exhaustive_space("each header field over its whole range x {0,max,random} neighbours", 1)

    # ---- pairwise boundary combinations --------------------------------------------------------------
    bvals = {n: sorted({0, 1, (1 << w) - 1, max(0, (1 << w) - 2)}) for n, w in FIELDS}
    lens_b = [1, 2, 65535, 65536]
    names = [n for n, _ in FIELDS] + ["len"]
    for a, b in itertools.combinations(names, 2):
        for va in (bvals.get(a) or lens_b):
            for vb in (bvals.get(b) or lens_b):
                item += 1
                if not ctx.mine(item):
                    continue
                vals = rnd_vals()
                dlen = rng.choice([1, 3, 9])
                for n_, v_ in ((a, va), (b, vb)):
                    if n_ == "len":
                        dlen = v_
                    else:
                        vals[n_] = v_
                data = bytes([rng.getrandbits(8)]) * dlen
                check_packet(ctx, vals, data)
                ctx.sig("pair", a, b, va if a != "len" else f"L{va}", vb if b != "len" else f"L{vb}")
    ctx.exhaustive_space("pairwise boundary combinations of the 7 fields", 1)

    # ---- data lengths ----------------------------------------------------------------------------------
    if ctx.quick:
        lens = set(range(1, 601)) | {65535, 65536}
        for k in range(1, 17):
            lens |= {(1 << k) - 1, 1 << k, (1 << k) + 1}
        lens = sorted(x for x in lens if 1 <= x <= 65536)
    else:
        lens = range(1, 65537)
    for L in lens:
        if not ctx.mine(L):
            continue
        vals = rnd_vals()
        data = bytes([L & 0xFF]) * L
        check_packet(ctx, vals, data)
        ctx.sig("len", "pow2" if L & (L - 1) == 0 else "pow2-1" if L & (L + 1) == 0 else "other", L.bit_length())
    if not ctx.quick:
        ctx.exhaustive_space("all 65536 data lengths", 65536 // ctx.nshards)

    # ---- random full combinations (thorough: many) -----------------------------------------------------------------
    for _ in range(ctx.size(2000, 1_500_000) // ctx.nshards):
        vals = rnd_vals()
        L = rng.choice([1, 2, 3, rng.randrange(1, 40), rng.randrange(1, 2000)])
        check_packet(ctx, vals, bytes([rng.getrandbits(8)]) * L, reframe=rng.random() < 0.2)
    # ---- framer -> accessor direction: all 2^16 values of header words 1 and 2 ---------------------------
    for word in (1, 2):
        chunk = []
        for v in range(65536):
            if not ctx.mine(v >> 6):
                continue
            other = rng.getrandbits(16)
            w1, w2 = (v, other) if word == 1 else (other, v)
            dlen = 1 + (v % 3)
            chunk.append((w1, w2, dlen, bytes([v & 0xFF]) * dlen))
            ctx.count(f"word{word}.values")
        stream = b"".join(w1.to_bytes(2, "big") + w2.to_bytes(2, "big") + (dl - 1).to_bytes(2, "big") + d
                          for w1, w2, dl, d in chunk)
        gen = packets.ccsds_generator(stream)
        for (w1, w2, dl, d), p in zip(chunk, itertools.islice(gen, len(chunk))):
            ctx.count("evaluations")
            ctx.count("accessor.checks")
            hb = bits.to_bits(w1, 16) + bits.to_bits(w2, 16) + bits.to_bits(dl - 1, 16)
            exp = (bits.u(hb[0:3]), bits.u(hb[3:4]), bits.u(hb[4:5]), bits.u(hb[5:16]), bits.u(hb[16:18]),
                   bits.u(hb[18:32]), bits.u(hb[32:48]))
            hv_first = tuple(p.header_values) if v % 2 else None     # half of the packets: header_values read first
            got = (p.version_number, p.type, p.secondary_header_flag, p.apid, p.sequence_flags, p.sequence_count,
                   p.data_length)
            if got != exp or tuple(p.header_values) != exp or (hv_first is not None and hv_first != exp):
                ctx.violation(f"framed-accessor/word{word}", f"accessors {got} != layout fields {exp} for header {bytes(p[:6]).hex()}",
                              {"header": bytes(p[:6]), "got": got, "expected": exp})
            if bytes(p[6:]) != d:
                ctx.violation("framed/data", "framed data differs", {"header": bytes(p[:6])})
            ctx.sig("word", word, v >> 12)
    ctx.exhaustive_space("all 2^16 values of header word 1 and of header word 2 (framer->accessor)", 2 * 65536 // ctx.nshards)

    # ---- many maximum-size constructed packets in one stream (> 20 MB): the framer re-frames every one of them -----
    if ctx.shard == 1 % ctx.nshards:
        made = [packets.create_ccsds_packet(bytes([i & 0xFF]) * 65536, apid=i % 2048, sequence_count=i, sequence_flags=i % 4,
                                            version_number=i % 8, type=i % 2, secondary_header_flag=(i // 2) % 2) for i in range(322)]
        stream = b"".join(bytes(m) for m in made)
        for kind, src, kw in (("bytes", stream, {}), ("file-chunked", io_mod.BytesIO(stream), {"buffer_read_size_bytes": 1 << 20}),
                              ("file-read-size-one-packet", io_mod.BytesIO(stream), {"buffer_read_size_bytes": 65542})):
            out = []
            s = monitored(lambda: [out.append((len(x), x.apid, x.sequence_count, x.data_length, bytes(x[6:8]))) for x in packets.ccsds_generator(src, **kw)])
            ctx.count("evaluations")
            ctx.count("reframe.beyond_20MB")
            exp = [(65542, i % 2048, i, 65535, bytes([i & 0xFF]) * 2) for i in range(322)]
            if s.exc is not None or out != exp:
                i = next((j for j, (a, b) in enumerate(zip(out, exp)) if a != b), min(len(out), len(exp)))
                ctx.violation(f"reframe/{kind}/long-stream", f"322 constructed maximum-size packets ({len(stream)} bytes) re-framed as {len(out)} packets "
                              f"(first difference at packet {i}); exc {s.exc!r}", {"source": kind, "first_difference": i, "yielded": len(out)})
        del stream, made
        ctx.sig("reframe", "beyond-20MB")
    # ---- N equal prefixed records from sources of known length: every (packet length, prefix length, N) of a small grid ---------
    if ctx.shard == 2 % ctx.nshards:
        for plen in (7, 8, 9, 12, 16):
            pkt = bytes(packets.create_ccsds_packet(bytes(range(1, plen - 5)), apid=plen, sequence_count=plen))
            for k2 in range(0, 13):
                for N in range(1, 11):
                    recs = (bytes([0xEE]) * k2 + pkt) * N
                    for kind, src in (("bytes", recs), ("bytesio", io_mod.BytesIO(recs))):
                        got = [bytes(x) for x in itertools.islice(packets.ccsds_generator(src, skip_header_bytes=k2), N + 2)]
                        ctx.count("evaluations")
                        ctx.count("reframe.equal_records_grid")
                        if got != [pkt] * N:
                            ctx.violation(f"reframe/equal-prefixed-records/{kind}", f"{N} records of {k2}+{plen} bytes re-framed as {len(got)} packets",
                                          {"packet_length": plen, "prefix": k2, "records": N, "source": kind})
        ctx.exhaustive_space("equal prefixed records: packet lengths {7,8,9,12,16} x prefixes 0..12 x 1..10 records x {bytes, BytesIO}", 1)
    # ---- rejection ---------------------------------------------------------------------------------------
    if ctx.mine(0) or True:
        for name, w in FIELDS:
            for bad, cls in ((-1, "oor-low"), (1 << w, "oor-high"), (-(1 << 31), "oor-low"), (1 << 31, "oor-high"),
                             ((1 << w) + 5, "oor-high")):
                vals = rnd_vals()
                vals[name] = bad
                ctx.count("evaluations")
                ctx.count("reject.checks")
                before = ctx.counters["create.contract_evaluations"]
                s = monitored(packets.create_ccsds_packet, b"\x01\x02", **vals)
                if not isinstance(s.exc, ValueError):
                    ctx.violation(f"reject/{name}/{cls}", f"{name}={bad} not rejected with ValueError: value={s.value!r} exc={s.exc!r}",
                                  {"vals": vals})
                if ctx.counters["create.contract_evaluations"] != before and s.exc is not None:
                    pass  # contract runs only on normal return
                ctx.sig("reject", name, cls)
        for data, cls in ((b"", "empty"), (bytes(65537), "oversize"), (bytes(70000), "oversize")):
            ctx.count("evaluations")
            ctx.count("reject.checks")
            s = monitored(packets.create_ccsds_packet, data, **rnd_vals())
            if not isinstance(s.exc, ValueError):
                ctx.violation(f"reject/data/{cls}", f"data of length {len(data)} not rejected with ValueError: {s.exc!r}", {"len": len(data)})
            ctx.sig("reject", "data", cls)
    ctx.sample({"vals": default, "len(data)": 1, "model_header_bits": model_header(default, 1)})
    v2 = dict(version_number=5, type=1, secondary_header_flag=0, apid=1025, sequence_flags=2, sequence_count=16383)
    ctx.sample({"vals": v2, "len(data)": 65536, "model_header_bits": model_header(v2, 65536)})
