"""C14 — bit consumption is accounted for; over-reads are never delivered as clean data.

Monitor shape K/T, trace-based (needs no reference decoder for its verdict): postconditions on
RawPacketData.read_as_int / read_as_bytes append (object, pos before, nbits) to a read log; the consumer recorder
attaches to every item yielded by packet_generator the warnings raised during that step. Offline checker per yielded
packet: it is warning-free  <=>  (every read on its raw data had nbits >= 0 and stayed inside the packet AND the final
cursor == 8*len);  final cursor == sum of the read widths;  with parse_bad_pkts=False no flagged packet is yielded.
The reference model is used only to cross-check (expected consumption class) and to steer the workload: packets
shorter/longer than what the definition consumes, dynamic lengths driven to 0 and below.
"""
import icontract

from vmon import gen, harness, ir, ref, render
from vmon.contracts import MonitorViolation
from vmon.libutil import lib_warnings, load_definition, monitored

LEVEL = "exploration"
SHARDS = {"quick": 16, "thorough": 16}
MUST = ["directed.empty_last_field", "directed.dataset_parse_bad_pkts", "directed.truthvalue_option", "directed.warnings_as_errors", "offers.show_progress", "offers.file_object", "lockstep.rounds", "stream.clean_clean_bad_clean", "yielded.clean", "yielded.flagged", "withheld.bad", "model.exact", "model.under", "model.over", "model.negative",
        "reads.logged", "reads.negative_width", "reads.past_end", "repeated.streams", "reparse.same_raw_object"]
RULE = ("case = (generated document, packet whose length is what the definition consumes -9..+9 bytes, or whose "
        "length-controlling fields make a computed size 0 or negative, parse_bad_pkts in {True, False}); each packet is "
        "offered to packet_generator as its own stream; the recorded read log and warnings of the step decide: clean "
        "delivery <=> all reads inside the packet with non-negative widths and final cursor == 8*len; the same packet "
        "repeated in one run, the same raw object parsed twice, and two generators in lock step with one warnings recorder "
        "per round (the mismatch warning arrives in the round of the mismatched packet). "
        "distinct_nontrivial = distinct (model consumption class, delivery class, read-log anomaly class, "
        "parse_bad_pkts, dynamic-length kind present) signatures; (exact, clean, none, True, static) is trivial and excluded.")
ASSUMPTIONS = ["the length-mismatch warning is recognised by origin (a UserWarning raised from definitions.py), not by its text",
               "reads on inner string buffers are separate objects and are not part of the packet's log",
               "a packet on which the library raises is 'failed with an exception' (allowed by the property)"]

_state = {}


def arm(ctx):
    from space_packet_parser import packets
    if _state:
        _state["ctx"] = ctx
        return
    _state.update(ctx=ctx, log=[])
    RPD = packets.RawPacketData

    def snap(self):
        return self.pos

    def post(self, nbits, OLD, result):
        _state["log"].append((self, OLD.pos, nbits))
        return True

    def pre_record(self, nbits):
        # reads that raise never reach the postcondition: record the attempt too
        _state.setdefault("attempts", []).append((self, self.pos, nbits))
        return True

    for name in ("read_as_int", "read_as_bytes"):
        f = getattr(RPD, name)
        f = icontract.ensure(post, error=MonitorViolation)(f)
        f = icontract.snapshot(snap, name="pos")(f)
        f = icontract.require(pre_record, error=MonitorViolation)(f)
        setattr(RPD, name, f)


def reads_of(raw_obj):
    return [(p, n) for o, p, n in _state["log"] if o is raw_obj]


def offer(ctx, defn, info, raw, out, parse_bad, has_dyn, wit_extra):
    """one packet as its own stream"""
    _state["log"].clear()
    _state["attempts"] = []
    # display / buffering options have no say in whether a packet is flagged: one offer in three runs with show_progress=True,
    # one in five through a file object with a small read size
    opt = {}
    if ctx.counters["evaluations"] % 3 == 0:
        opt["show_progress"] = True
        ctx.count("offers.show_progress")
    src = raw
    if ctx.counters["evaluations"] % 5 == 0:
        import io as _io
        src = _io.BytesIO(raw)
        opt["buffer_read_size_bytes"] = 7
        ctx.count("offers.file_object")
    import contextlib, io as _io2
    with contextlib.redirect_stdout(_io2.StringIO()):
        g = defn.packet_generator(src, parse_bad_pkts=parse_bad, **opt)
        s = monitored(next, g)
        g.close()
    ctx.count("evaluations")
    ctx.count(f"model.{out.consumption if out.status in ('ok', 'error') else 'other'}" if out.status != "unrecognized" else "model.unrecognized")
    nbits_total = 8 * len(raw)
    wit = dict(wit_extra, raw=raw, parse_bad_pkts=parse_bad, model_status=out.status, model_consumption=out.consumption,
               model_detail=out.detail, model_pos=out.pos, error_at=out.error_at)
    attempts = [(p, n) for o, p, n in _state["attempts"] if len(o) == len(raw) and bytes(o) == raw]
    neg = [a for a in attempts if isinstance(a[1], int) and a[1] < 0]
    past = [a for a in attempts if isinstance(a[1], int) and a[1] >= 0 and a[0] + a[1] > nbits_total]
    ctx.count("reads.logged", len(attempts))
    ctx.count("reads.negative_width", len(neg))
    ctx.count("reads.past_end", len(past))
    anomaly = "negative-width" if neg else "past-end" if past else "none"
    dyn = "dynamic" if has_dyn else "static"
    if s.exc is not None and not isinstance(s.exc, StopIteration):
        ctx.count("failed.exception")
        ctx.sig(out.consumption, "exception", anomaly, parse_bad, dyn, info.feat.get(out.error_at, "-"))
        if out.status == "ok" and out.consumption in ("exact", "under"):
            ctx.violation(f"exception/{type(s.exc).__name__}/{out.consumption}/{harness.stopped_at({}, out, info) if False else anomaly}",
                          f"generator raised {s.exc!r} on a packet the model decodes ({out.consumption})", wit)
        return
    if isinstance(s.exc, StopIteration):
        # nothing yielded: unrecognized (skipped) or withheld as bad
        if out.status == "ok":
            if out.consumption == "exact":
                ctx.violation("withheld/clean-packet", "a packet that consumes exactly all of its bits was not yielded", wit)
            elif parse_bad:
                ctx.violation("withheld/although-parse_bad_pkts", "a length-mismatched packet was withheld although parse_bad_pkts=True", wit)
            else:
                ctx.count("withheld.bad")
                ctx.sig(out.consumption, "withheld", anomaly, parse_bad, dyn)
                # "flagged by the warning (and withheld when bad packets are excluded)": withholding does not replace the warning
                if not [w for w in s.warnings if harness.is_length_warning(w)]:
                    ctx.violation(f"withheld/without-warning/{out.consumption}", "a length-mismatched packet was withheld (parse_bad_pkts=False) without the mismatch warning", wit)
        return
    pkt = s.value
    lw = [w for w in s.warnings if harness.is_length_warning(w)]
    log = reads_of(pkt.raw_data)
    pos = pkt.raw_data.pos
    inside = all(isinstance(n, int) and n >= 0 and p >= 0 and p + n <= nbits_total for p, n in log)
    clean_by_trace = inside and pos == nbits_total and not neg and not past
    delivery = "flagged" if lw else "clean"
    ctx.count(f"yielded.{delivery}")
    if (out.consumption, delivery, anomaly, parse_bad, dyn) != ("exact", "clean", "none", True, "static"):
        last = out.items[-1][0] if out.items else "-"
        ctx.sig(out.consumption, delivery, anomaly, parse_bad, dyn, info.feat.get(out.error_at if out.status == "error" else last, "-"))
    if not lw and not clean_by_trace:
        why = "negative-width-read" if neg or any(n < 0 for _, n in log) else "read-past-end" if not inside or past else \
              ("cursor-short" if pos < nbits_total else "cursor-beyond")
        ctx.violation(f"delivered-clean/{why}/{dyn}", f"packet yielded without a length warning although {why} (cursor {pos} of {nbits_total} bits; "
                      f"reads with negative width {len(neg)}, past the end {len(past)})", dict(wit, reads=log[-8:]))
    if lw and clean_by_trace:
        ctx.violation("spurious-warning", f"length warning on a packet whose reads were all inside and whose cursor is exactly at the end ({pos})", wit)
    if sum(n for _, n in log) != pos:
        ctx.violation("cursor-accounting", f"cursor {pos} != sum of read widths {sum(n for _, n in log)}", dict(wit, reads=log[-8:]))
    if lw and not parse_bad:
        ctx.violation("yielded-although-excluded", "a flagged packet was yielded with parse_bad_pkts=False", wit)
    # ---- cross-check with the model's consumption class ------------------------------------------------------------
    if out.status == "ok":
        if out.consumption == "exact" and lw:
            ctx.violation("model/exact-but-flagged", f"model consumes exactly {out.pos} bits = 8*len, library flagged the packet (cursor {pos})", wit)
        if out.consumption == "under" and not lw:
            ctx.violation("model/under-but-clean", f"model consumes {out.pos} of {nbits_total} bits, library delivered the packet clean (cursor {pos})", wit)
    elif out.status == "error" and out.consumption in ("over", "negative") and not lw:
        ctx.violation(f"model/{out.consumption}-but-clean/{dyn}", f"model: {out.detail} at {out.error_at}; library delivered the packet without a warning", wit)


def repeated(ctx, defn, info, raw, out, dyn, rng, wit_extra):
    """the SAME packet several times in ONE generator run (identical APID, length and mismatch), mixed with a clean
    header-only... no: with itself only - every occurrence must be flagged / withheld exactly like the first one"""
    n = rng.randrange(2, 5)
    stream = raw * n
    for parse_bad in (True, False):
        g = defn.packet_generator(stream, parse_bad_pkts=parse_bad)
        steps = []
        for _ in range(n + 1):
            s = monitored(next, g)
            steps.append(s)
            if s.exc is not None:
                break
        g.close()
        ctx.count("evaluations")
        ctx.count("repeated.streams")
        wit = dict(wit_extra, raw=raw, copies=n, parse_bad_pkts=parse_bad, model_consumption=out.consumption)
        yielded = [s for s in steps if s.exc is None]
        if any(s.exc is not None and not isinstance(s.exc, StopIteration) for s in steps):
            continue    # a raising packet is 'failed with an exception'
        flagged = [bool([w for w in s.warnings if harness.is_length_warning(w)]) for s in yielded]
        ctx.sig("repeated", out.consumption, parse_bad, n)
        if out.consumption == "exact":
            if len(yielded) != n or any(flagged):
                ctx.violation("repeated/clean-packet-treated-differently", f"{n} copies of a clean packet: {len(yielded)} yielded, flags {flagged}", wit)
        else:
            want = n if parse_bad else 0
            if len(yielded) != want:
                ctx.violation(f"repeated/{'withheld' if len(yielded) < want else 'yielded-although-excluded'}/occurrence>1",
                              f"{n} copies of a length-mismatched packet with parse_bad_pkts={parse_bad}: {len(yielded)} yielded, expected {want}", wit)
            elif not all(flagged):
                k = flagged.index(False)
                ctx.violation("repeated/delivered-clean/occurrence>1" if k else "repeated/delivered-clean/first",
                              f"copy {k + 1} of {n} identical length-mismatched packets was yielded without the warning (flags {flagged})", wit)


def lockstep(ctx, defn, clean, bad, wit_extra):
    """two generators of one definition consumed in lock step, the warnings of each round recorded by one
    warnings.catch_warnings(record=True) block around the round (the usual shape of a monitoring loop): the round in which
    the mismatched packet is delivered - and only that round - carries the mismatch warning, as when the stream is consumed
    alone; the other generator ending earlier must not disturb that"""
    import warnings
    sa, sb = clean * 2, clean * 2 + bad + clean
    alone = []
    g = defn.packet_generator(sb)
    for _ in range(5):
        s = monitored(next, g)
        if s.exc is not None:
            break
        alone.append(bool([w for w in s.warnings if harness.is_length_warning(w)]))
    g.close()
    ctx.count("stream.clean_clean_bad_clean")
    if alone != [False, False, True, False]:
        # one stream: clean, clean, mismatched, clean -> exactly the third delivery carries the warning
        ctx.violation("stream/warning-pattern/" + "".join("W" if f else "-" for f in alone),
                      f"a stream clean, clean, mismatched, clean was delivered with warning flags {alone}", dict(wit_extra, flags=alone, bad=bad, clean=clean))
        return
    g = defn.packet_generator(sb, parse_bad_pkts=False)
    kept = []
    for _ in range(5):
        s = monitored(next, g)
        if s.exc is not None:
            break
        kept.append(bytes(s.value.raw_data))
    g.close()
    if kept != [clean, clean, clean]:
        ctx.violation("stream/withheld-pattern", f"the same stream with parse_bad_pkts=False yielded {len(kept)} packets, expected the three clean ones",
                      dict(wit_extra, yielded=len(kept)))
    ga, gb = defn.packet_generator(sa), defn.packet_generator(sb)
    rounds = []
    sentinel = object()
    for _ in range(5):
        with warnings.catch_warnings(record=True) as w:
            warnings.simplefilter("always")
            next(ga, sentinel)
            b = next(gb, sentinel)
        if b is sentinel:
            break
        rounds.append(bool([x for x in w if harness.is_length_warning(x)]))
    ga.close()
    gb.close()
    ctx.count("evaluations")
    ctx.count("lockstep.rounds", len(rounds))
    ctx.sig("lockstep", "two-generators")
    if rounds != alone:
        ctx.violation("lockstep/mismatch-warning-in-wrong-round" if any(rounds) else "lockstep/mismatch-warning-lost",
                      f"mismatch warning per round {rounds} when another generator of the definition is advanced in the same rounds; {alone} when consumed alone",
                      dict(wit_extra, rounds=rounds, alone=alone, bad=bad, clean=clean))


def reparse_same_raw_object(ctx, defn, info, raw, out, wit_extra):
    """a RawPacketData object that has been parsed once is wrapped in a new CCSDSPacket and parsed again (e.g. the
    raw_data of an unrecognized packet's partial data handed to another definition): the cursor accounting of the second
    parse must be the same as of the first"""
    from space_packet_parser import packets as P
    obj = P.RawPacketData(raw)
    res = []
    for attempt in range(2):
        pkt = P.CCSDSPacket(raw_data=obj)
        s = monitored(defn.parse_ccsds_packet, pkt)
        res.append((type(s.exc).__name__ if s.exc else None, pkt.raw_data.pos, len(pkt)))
    ctx.count("evaluations")
    ctx.count("reparse.same_raw_object")
    if res[0] != res[1]:
        ctx.violation("reparse/same-raw-object/cursor-accounting", f"first parse (exception, cursor, items) = {res[0]}, second parse of the same RawPacketData object = {res[1]}; model cursor {out.pos}",
                      dict(wit_extra, raw=raw))


def has_dynamic(doc):
    return any(not isinstance(getattr(t.enc, "length", 0), int) for t in doc.types)


def run(ctx):
    from space_packet_parser import packets as P
    arm(ctx)
    prof = gen.Profile(p_dynamic=0.6, negative_lengths=True, max_depth=2, p_abstract=0.2, p_calibrated=0.2,
                       kinds=("integer", "float", "boolean", "string", "binary", "enumerated"))
    ndocs = ctx.size(400, 40000)
    for d in range(ndocs):
        if not ctx.mine(d):
            continue
        rng = ctx.rng("doc", d)
        doc = gen.gen_document(rng, prof if d % 4 else None)
        info = harness.DocInfo(doc)
        ld = monitored(load_definition, render.render_doc(doc))
        if ld.exc is not None:
            ctx.violation(f"load/{type(ld.exc).__name__}", repr(ld.exc), {"doc": d})
            continue
        dyn = has_dynamic(doc)
        pb = gen.PacketBuilder(doc, rng)
        first_clean = first_bad = None
        for i in range(ctx.size(14, 30)):
            raw, meta = pb.build(None if rng.random() < 0.3 else rng.choice([c.name for c in doc.containers]),
                                 length_delta=rng.choice([0, 0, 0, 1, -1, 2, -2, 9, -9, 3, -4]))
            out = ref.walk(doc, raw)
            if out.status in ("dontcare", "unrecognized") or harness.has_dontcare(out):
                continue
            if out.status == "error" and out.consumption not in ("over", "negative"):
                continue
            for parse_bad in (True, False):
                offer(ctx, ld.value, info, raw, out, parse_bad, dyn, {"doc": d})
            if out.status == "ok" and out.consumption == "exact" and first_clean is None:
                first_clean = raw
            if out.status == "ok" and out.consumption in ("under",) and first_bad is None:
                first_bad = raw
            if first_clean is not None and first_bad is not None and first_clean is not True:
                lockstep(ctx, ld.value, first_clean, first_bad, {"doc": d})
                first_clean = True       # once per document
            if i % 3 == 0 and out.status == "ok":
                repeated(ctx, ld.value, info, raw, out, dyn, rng, {"doc": d})
                reparse_same_raw_object(ctx, ld.value, info, raw, out, {"doc": d})
            if d < 2 and i < 2:
                ctx.sample({"doc": d, "raw": raw, "model": (out.status, out.consumption, out.pos, 8 * len(raw))})
    # ---- directed: the negative computed length that rewinds the cursor ------------------------------------------------
    directed(ctx)


def directed(ctx):
    """7-byte packet, LEN (8 bits) = 0, binary B sized 8*LEN-8 (= -8 bits), then an 8-bit TAIL: a negative width that
    rewinds the cursor by one byte lets TAIL re-read LEN and the packet end exactly at its last bit."""
    from space_packet_parser import packets as P
    from vmon.props.c05 import header_types
    ts, ps = header_types("PKT_APID")
    ts += [ir.PType("LEN_Type", "integer", ir.IntEnc(8, "unsigned", False)),
           ir.PType("B_Type", "binary", ir.BinEnc(ir.DynLen("LEN", False, 8, -8))),
           ir.PType("TAIL_Type", "integer", ir.IntEnc(8, "unsigned", False)),
           ir.PType("S_Type", "string", ir.StrEnc("US-ASCII", ir.DynLen("LEN", False, 8, -8)))]
    ps += [ir.Param("LEN", "LEN_Type"), ir.Param("B", "B_Type"), ir.Param("TAIL", "TAIL_Type"), ir.Param("S", "S_Type")]
    for fieldname in ("B", "S"):
        root = ir.Container("CCSDSPacket", tuple(("p", p.name) for p in ps[:7]) + (("p", "LEN"), ("p", fieldname), ("p", "TAIL")))
        doc = ir.Doc(tuple(ts), tuple(ps), (root,))
        info = harness.DocInfo(doc)
        defn = load_definition(render.render_doc(doc))
        for lenval, extra in ((0, b""), (0, b"\x00"), (1, b"\x07"), (2, b"A\x07"), (3, b"AB"), (0, b"\x01\x02")):
            raw = bytes(P.create_ccsds_packet(bytes([lenval]) + extra, apid=5))
            out = ref.walk(doc, raw)
            for parse_bad in (True, False):
                offer(ctx, defn, info, raw, out, parse_bad, True, {"directed": f"{fieldname} sized 8*LEN-8, LEN={lenval}, {len(extra)} more bytes"})
    # ---- a length-dependent layout whose LAST field has a computed size of 0 bits, in a packet of exactly the right length: a clean
    #      packet (the zero-width read happens with the cursor at the very end); also with one spare / one missing byte
    ts2, ps2 = header_types("PKT_APID")
    ts2 += [ir.PType("N_Type", "integer", ir.IntEnc(8, "unsigned", False)), ir.PType("BLOB_Type", "binary", ir.BinEnc(ir.DynLen("N", False, 8, None))),
            ir.PType("TXT_Type", "string", ir.StrEnc("US-ASCII", ir.DynLen("N", True, 8, None)))]
    ps2 += [ir.Param("N", "N_Type"), ir.Param("BLOB", "BLOB_Type"), ir.Param("TXT", "TXT_Type")]
    for fieldname in ("BLOB", "TXT"):
        root = ir.Container("CCSDSPacket", tuple(("p", p.name) for p in ps2[:7]) + (("p", "N"), ("p", fieldname)))
        doc = ir.Doc(tuple(ts2), tuple(ps2), (root,))
        info = harness.DocInfo(doc)
        defn = load_definition(render.render_doc(doc))
        for nval, body in ((0, b""), (0, b"\x55"), (1, b"A"), (2, b"AB"), (2, b"A"), (3, b"ABC"), (0, b"")):
            raw = bytes(P.create_ccsds_packet(bytes([nval]) + body, apid=6))
            out = ref.walk(doc, raw)
            for parse_bad in (True, False):
                offer(ctx, defn, info, raw, out, parse_bad, True, {"directed": f"last field {fieldname} sized 8*N, N={nval}, {len(body)} bytes follow"})
                ctx.count("directed.empty_last_field")
    # ---- the dataset builder hands parse_bad_pkts on to the generator for EVERY file: mismatched packets of later files are withheld too
    if ctx.shard == 3 % ctx.nshards:
        import os
        import tempfile
        from space_packet_parser import xarr
        root = ir.Container("CCSDSPacket", tuple(("p", p.name) for p in ps2[:7]) + (("p", "N"),))
        defn = load_definition(render.render_doc(ir.Doc(tuple(ts2), tuple(ps2), (root,))))
        d = tempfile.mkdtemp(prefix="vmon-c14-", dir=os.environ.get("VMON_SCRATCH"))
        try:
            good = lambda v: bytes(P.create_ccsds_packet(bytes([v]), apid=6))
            longer = lambda v: bytes(P.create_ccsds_packet(bytes([v, 0xEE]), apid=6))
            files = []
            for fi, content in enumerate(([good(1), good(2)], [good(3), longer(4), good(5)], [longer(6), good(7)])):
                path = os.path.join(d, f"f{fi}.bin")
                with open(path, "wb") as f:
                    f.write(b"".join(content))
                files.append(path)
            for pbp, want in ((False, [1, 2, 3, 5, 7]), (True, [1, 2, 3, 4, 5, 6, 7])):
                st = monitored(lambda: xarr.create_dataset(files, defn, parse_bad_pkts=pbp))
                ctx.count("evaluations")
                ctx.count("directed.dataset_parse_bad_pkts")
                got = [int(x) for x in st.value[6]["N"].values] if st.exc is None else None
                if got != want:
                    ctx.violation(f"dataset/parse_bad_pkts={pbp}/rows", f"create_dataset over three files with parse_bad_pkts={pbp}: N column {got} / {st.exc!r}, expected {want}",
                                  {"parse_bad_pkts": pbp, "got": got})
                nwarn = sum("Number of bits parsed" in str(w.message) for w in lib_warnings(st))
                if nwarn != 2:
                    ctx.violation(f"dataset/mismatch-warnings/{min(nwarn, 3)}", f"create_dataset over three files holding two length-mismatched packets (parse_bad_pkts={pbp}): "
                                  f"{nwarn} mismatch warnings reached the caller, expected 2", {"parse_bad_pkts": pbp, "warnings": [str(w.message)[:100] for w in st.warnings][:5]})
            # ---- the option is a truth value: 0 / numpy.bool_(False) withhold like False, 1 / numpy.bool_(True) deliver like True
            import numpy as np
            stream = good(1) + longer(2) + good(3)
            for pbp, want in ((0, [1, 3]), (np.bool_(False), [1, 3]), (np.array([1]) > 2, [1, 3]), (1, [1, 2, 3]), (np.bool_(True), [1, 2, 3])):
                pbp = pbp[0] if isinstance(pbp, np.ndarray) else pbp
                st = monitored(lambda: [int(p_["N"]) for p_ in defn.packet_generator(stream, parse_bad_pkts=pbp)])
                ctx.count("evaluations")
                ctx.count("directed.truthvalue_option")
                if st.value != want:
                    ctx.violation(f"option-truth-value/{type(pbp).__name__}/{bool(pbp)}", f"parse_bad_pkts={pbp!r} ({type(pbp).__name__}): yielded N={st.value} / {st.exc!r}, expected {want}", {"parse_bad_pkts": repr(pbp)})
            # ---- a caller that turns warnings into errors gets the mismatch warning AS an exception, at the mismatched packet
            import warnings as W
            for pbp in (True, False):
                seen, exc = [], None
                with W.catch_warnings():
                    W.simplefilter("error")
                    try:
                        for p_ in defn.packet_generator(stream, parse_bad_pkts=pbp):
                            seen.append(int(p_["N"]))
                    except Warning as e:
                        exc = e
                    except Exception as e:  # noqa: BLE001
                        exc = e
                ctx.count("evaluations")
                ctx.count("directed.warnings_as_errors")
                if seen != [1] or not isinstance(exc, Warning) or "Number of bits parsed" not in str(exc):
                    ctx.violation(f"warnings-as-errors/{'none' if exc is None else type(exc).__name__}", f"under simplefilter('error') the stream clean, mismatched, clean (parse_bad_pkts={pbp}) gave N={seen} and "
                                  f"{exc!r}; expected [1] and then the mismatch warning raised as an exception", {"parse_bad_pkts": pbp, "seen": seen})
        finally:
            import shutil
            shutil.rmtree(d, ignore_errors=True)

