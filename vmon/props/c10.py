"""C10 — framing terminates on every finite source and yields only complete packets.

Fault enumeration: every base stream is cut at EVERY byte offset (the producer or link dying there) and offered
through every source kind and several read sizes; plus empty input and arbitrary byte strings. The generator is
stepped with next(); the verdict on termination is by LOGICAL STEPS (a finite source of L bytes can hold at most
L//7 packets: one more successful next() than the model allows is the witness), and a source that is polled
after exhaustion more than a bounded number of times raises SourceSpin inside the framer (a hang inside one next()
turned into an observable event). The yielded items are compared with the model framing of the truncated input:
complete packets only, consecutive slices, remainder shorter than a packet; no internal error may escape.
"""
import io
import os
import resource
import tempfile

from vmon import docs, sources
from vmon.libutil import load_definition, monitored

LEVEL = "fault_enumeration"
SHARDS = {"quick": 16, "thorough": 16}
MUST = ["cut.cases", "kind.bytes", "kind.bytesio", "kind.file", "kind.realfile", "kind.realfile_update", "kind.bytesio_used_before_first_next", "headers_only.empty_definition", "headers_only.with_combine_segmented", "kind.shortfile", "kind.socket_closed",
        "kind.socketpair_closed", "empty.cases", "random.cases", "via_definition.cases", "cut.in_header", "cut.in_body",
        "cut.on_border", "progress.cases", "big.maxsize_cases", "big.beyond20MB_cases", "cli.truncated_runs", "cli.truncated_long_file"]
RULE = ("fault = end of data at byte offset c of a valid stream; enumerated: every c in 0..len for 6 base streams "
        "(1-4 packets, prefix k in {0,3}, data lengths 1..300) x source kinds {bytes, BytesIO default, "
        "BytesIO r in {1,7,4096}, recording file, short-read file, real file, real file opened for update and handed over partly unflushed, scripted socket closed by peer, real "
        "socketpair closed by peer} x {ccsds_generator, packet_generator(headers only), packet_generator(definition)}; "
        "plus empty input on every kind and seeded random byte strings. Oracle: model framing of the truncated bytes; "
        "step budget len//7+2. distinct_nontrivial = distinct (source kind, read-size class, entry point, cut class) "
        "where cut class in {empty, in-prefix, in-header, header-end, in-body, on-border, complete}; "
        "(bytes, complete) is the trivial signature and is excluded.")
ASSUMPTIONS = ["exceptions of classes defined in space_packet_parser.exceptions, and EOFError, are treated as deliberate "
               "(not 'internal errors'); any other exception escaping the generator on a finite source is a violation",
               "RLIMIT_AS of 6 GiB on the worker guards against allocation run-away; a worker killed by it is inconclusive"]

SPIN_LIMIT = 64


class SourceSpin(Exception):
    pass


class SpinFile(sources.RecordingFile):
    def read(self, size=-1):
        out = super().read(size)
        if self.eof_calls > SPIN_LIMIT:
            raise SourceSpin(f"exhausted file polled {self.eof_calls} times")
        return out


class SpinSocket(sources.ScriptedSocket):
    def recv(self, bufsize, flags=0):
        out = super().recv(bufsize, flags)
        if self.eof_calls > SPIN_LIMIT:
            raise SourceSpin(f"closed socket polled {self.eof_calls} times")
        return out


def model_frames(data, k):
    """maximal prefix of complete packets"""
    out, pos = [], 0
    while True:
        if len(data) - pos < k + 6:
            break
        h = data[pos + k:pos + k + 6]
        n = 6 + int.from_bytes(h[4:6], "big") + 1
        if len(data) - pos - k < n:
            break
        out.append(data[pos + k:pos + k + n])
        pos += k + n
    return out, len(data) - pos


def cut_class(stream_borders, k, c, total):
    if c == 0:
        return "empty"
    if c == total:
        return "complete"
    start = max(b for b in stream_borders if b <= c)
    off = c - start
    if off == 0:
        return "on-border"
    if off < k:
        return "in-prefix"
    if off < k + 6:
        return "in-header"
    if off == k + 6:
        return "header-end"
    return "in-body"


def one(ctx, data, k, kind, r, entry, defn, cls, rng, progress=False):
    """one truncated/arbitrary input through one source kind and entry point"""
    if progress:
        import contextlib
        import io as _io
        ctx.count("progress.cases")
        with contextlib.redirect_stdout(_io.StringIO()):
            return _one(ctx, data, k, kind, r, entry, defn, cls, rng, True)
    return _one(ctx, data, k, kind, r, entry, defn, cls, rng, False)


def _one(ctx, data, k, kind, r, entry, defn, cls, rng, progress):
    from space_packet_parser import exceptions as X
    from space_packet_parser import packets as P
    exp, remainder = model_frames(data, k)
    kw = {"skip_header_bytes": k}
    if r is not None:
        kw["buffer_read_size_bytes"] = r
    src = tmp = th = None
    wit = {"kind": kind, "k": k, "read_size": r, "entry": entry, "len": len(data), "cut_class": cls,
           "data": data[:48], "expected_packets": len(exp)}
    try:
        if kind == "bytes":
            src = data
        elif kind == "bytesio":
            src = io.BytesIO(data)
        elif kind == "file":
            src = SpinFile(data)
        elif kind == "shortfile":
            src = SpinFile(data, mode="short", rng=rng)
        elif kind == "realfile":
            fd, tmp = tempfile.mkstemp(prefix="vmon-c10-", dir=os.environ.get("VMON_SCRATCH"))
            os.write(fd, data)
            os.close(fd)
            src = open(tmp, "rb")
        elif kind == "realfile_update":
            # a real file opened for update (w+b), written in two pieces with a flush in between - at the border of a complete
            # packet where there is one - and handed over with the second piece still unflushed
            fd, tmp = tempfile.mkstemp(prefix="vmon-c10-", dir=os.environ.get("VMON_SCRATCH"))
            os.close(fd)
            src = open(tmp, "w+b")
            ends, pos_ = [], 0
            for p_ in exp:
                pos_ += k + len(p_)
                ends.append(pos_)
            cutp = rng.choice(ends) if ends and rng.random() < 0.8 else rng.randrange(0, len(data) + 1)
            src.write(data[:cutp])
            src.flush()
            src.write(data[cutp:])
        elif kind == "socket_closed":
            sizes = []
            left = len(data)
            while left > 0:
                c = min(left, rng.choice([1, 3, 6, 7, 50, 1000]))
                sizes.append(c)
                left -= c
            src = SpinSocket(sources.cut(data, sizes), closed_by_peer=True)
        elif kind == "socketpair_closed":
            src, th, _snd = sources.socketpair_feed(data, [max(1, len(data) // 3)] * 3, close=True)
        if progress:
            kw["show_progress"] = True
        if entry == "raw":
            gen = P.ccsds_generator(src, **kw)
        elif entry == "headers_only":
            if ctx.counters["evaluations"] % 2 == 1:
                # headers-only is a pass-through of the framer: asking for segment re-combination as well changes nothing
                kw["combine_segmented_packets"] = True
                ctx.count("headers_only.with_combine_segmented")
            # every third headers-only run goes through a definition that describes nothing at all (this mode does not use it)
            if ctx.counters["evaluations"] % 3 == 0:
                from space_packet_parser.xtce.definitions import XtcePacketDefinition
                gen = XtcePacketDefinition().packet_generator(src, ccsds_headers_only=True, **kw)
                ctx.count("headers_only.empty_definition")
            else:
                gen = defn.packet_generator(src, ccsds_headers_only=True, **kw)
        else:
            gen = defn.packet_generator(src, **kw)
            ctx.count("via_definition.cases")
        if kind == "bytesio" and ctx.counters["evaluations"] % 4 == 1:
            # the caller uses the handle (reads it to the end, e.g. to checksum the file) after asking for the generator
            src.read()
            ctx.count("kind.bytesio_used_before_first_next")
        budget = len(data) // 7 + 2
        items, end = [], None
        for _ in range(budget + 1):
            s = monitored(next, gen)
            if isinstance(s.exc, StopIteration):
                end = "stop"
                break
            if s.exc is not None:
                end = s.exc
                break
            items.append(s.value)
        ctx.count("evaluations")
        ctx.count(f"kind.{kind}")
        mech = None
        if end is None:
            mech, msg = "nontermination/steps", f"{len(items)} successful next() calls on a {len(data)}-byte source (at most {len(data) // 7} packets fit)"
        elif isinstance(end, SourceSpin):
            mech, msg = "nontermination/source-spin", str(end)
        elif end != "stop":
            if isinstance(end, (EOFError,) + tuple(v for v in vars(X).values() if isinstance(v, type) and issubclass(v, Exception))):
                ctx.count("deliberate_exception")
                mech = None
            else:
                mech, msg = f"internal-error/{type(end).__name__}", f"{type(end).__name__}: {end} escaped after {len(items)} items"
        if mech is None:
            raws = [bytes(x.raw_data) if entry == "definition" else bytes(x) for x in items]
            bad_len = [i for i, b in enumerate(raws) if len(b) < 7 or len(b) != 7 + int.from_bytes(b[4:6], "big")]
            if bad_len:
                mech, msg = "incomplete-packet", f"item {bad_len[0]} has {len(raws[bad_len[0]])} bytes, not what its own length field declares"
            elif raws != exp[:len(raws)]:
                mech, msg = "not-consecutive-slices", "yielded items are not the consecutive packets of the input"
            elif end == "stop" and len(raws) < len(exp):
                mech, msg = "remainder-holds-a-packet", f"stopped after {len(raws)} packets but {len(exp) - len(raws)} more complete packets were available"
        if mech:
            ctx.violation(f"{entry}/{kind if kind != 'shortfile' else 'file'}/{mech}/{cls}{'/show_progress' if progress else ''}", msg,
                          dict(wit, yielded=len(items), show_progress=progress))
        ctx.sig(kind, "default" if r is None else r, entry, cls) if (kind, cls) != ("bytes", "complete") else None
        gen.close()
    finally:
        if kind in ("socket_closed", "socketpair_closed") and src is not None:
            src.close()
            if th is not None:
                th.join(5)
        if kind in ("realfile", "realfile_update") and src is not None:
            src.close()
            os.unlink(tmp)


def cli_truncated(ctx, stream):
    """`spp describe-packets` and `spp parse` on a packet file cut at every offset: one row / one parsed packet per COMPLETE
    packet, none for the partial tail, exit code 0 (recorders of C19 at the renderer boundary; yield budget on the framer)"""
    import tempfile
    from click.testing import CliRunner
    from space_packet_parser import cli
    from vmon.props import c19
    holder = {"rec": c19.Rec(), "budget": 10}
    c19.install(holder)
    scratch = tempfile.mkdtemp(prefix="vmon-c10cli-", dir=os.environ.get("VMON_SCRATCH"))
    defpath = os.path.join(scratch, "def.xml")
    with open(defpath, "wb") as f:
        f.write(docs.header_plus_blob_doc())
    runner = CliRunner()
    try:
        for c in range(0, len(stream) + 1):
            data = stream[:c]
            n = len(model_frames(data, 0)[0])
            path = os.path.join(scratch, "cut.bin")
            with open(path, "wb") as f:
                f.write(data)
            for cmd in (["describe-packets", path], ["parse", path, defpath]):
                holder["rec"] = c19.Rec()
                holder["budget"] = len(data) // 7 + 2
                res = monitored(runner.invoke, cli.spp, ["--quiet"] + cmd)
                ctx.count("evaluations")
                ctx.count("cli.truncated_runs")
                r = res.value
                wit = {"command": cmd[0], "file_len": c, "complete_packets": n}
                if res.exc is not None or r is None:
                    continue
                if isinstance(r.exception, c19.Budget):
                    ctx.violation(f"cli/{cmd[0]}/nontermination", str(r.exception), wit)
                elif r.exception is not None or r.exit_code != 0:
                    ctx.violation(f"cli/{cmd[0]}/crash/{type(r.exception).__name__}", f"exit {r.exit_code}: {r.exception!r}", wit)
                elif cmd[0] == "describe-packets":
                    rows = [x for x in holder["rec"].rows if any(ch.isdigit() for cell in x for ch in cell)]
                    want_rows = n if n <= 10 else 10       # beyond ten packets the listing shows the first five and the last five
                    if len(rows) != want_rows and (holder["rec"].rows or holder["rec"].printed):
                        ctx.violation("cli/describe-packets/lists-incomplete-packet" if len(rows) > want_rows else "cli/describe-packets/misses-packet",
                                      f"{len(rows)} packet rows for a file holding {n} complete packets (cut at byte {c})", wit)
                else:
                    pp = holder["rec"].pprinted
                    if pp and isinstance(pp[0], list) and len(pp[0]) != n:
                        ctx.violation("cli/parse/wrong-packet-count", f"{len(pp[0])} parsed packets shown for a file holding {n} complete packets", wit)
    finally:
        import shutil
        shutil.rmtree(scratch, ignore_errors=True)
        holder["budget"] = 10 ** 12      # the framer wrapper installed for the CLI runs stays in place: make it inert


def big_cases(ctx, defn, rng):
    from space_packet_parser import packets as P
    import random
    fixed = random.Random(77)
    small = [bytes(P.create_ccsds_packet(bytes(fixed.getrandbits(8) for _ in range(d)), apid=5, sequence_count=i)) for i, d in enumerate((3, 1, 9))]
    maxp = bytes(P.create_ccsds_packet(bytes([fixed.getrandbits(8)]) * 65536, apid=6))
    stream = small[0] + maxp + small[1] + maxp[:6] + bytes(65536) + small[2]
    borders = [0, len(small[0]), len(small[0]) + len(maxp), len(small[0]) + len(maxp) + len(small[1])]
    cuts = sorted({len(stream)} | {b + d for b in borders + [len(stream) - len(small[2])] for d in (-1, 0, 1, 5, 6, 7, 300) if 0 <= b + d <= len(stream)})
    jobs = [(c, kind, r) for c in cuts for kind, r in (("bytes", None), ("bytesio", None), ("file", 4096), ("socket_closed", None))]
    for j, (c, kind, r) in enumerate(jobs):
        if ctx.mine(j):
            one(ctx, stream[:c], 0, kind, r, ("raw", "headers_only", "definition")[j % 3], defn, "maxsize", rng)
            ctx.count("big.maxsize_cases")
    # beyond 20 MB (each shard does one configuration; the stream is ~21 MB of 65542-byte packets plus a tail)
    configs = [("bytes", None, 0), ("bytesio", None, 0), ("file", 1 << 20, 0), ("bytes", None, 3), ("file", 1 << 20, 3), ("bytesio", 1 << 16, 0)]
    for ci, (kind, r, k) in enumerate(configs):
        if not ctx.mine(ci + 11):
            continue
        n = 325
        pk = [bytes(P.create_ccsds_packet(bytes([i & 0xFF]) * 65536, apid=i % 2048, sequence_count=i % 16384)) for i in range(n)]
        pre = bytes([0xEE]) * k
        big = b"".join(pre + p for p in pk) + pre + small[0] + pre + small[1][:5]
        one(ctx, big, k, kind, r, "raw", defn, "beyond-20MB", rng)
        one(ctx, big[:20_500_000], k, kind, r, "headers_only", defn, "beyond-20MB", rng)
        ctx.count("big.beyond20MB_cases")


def run(ctx):
    import random
    try:
        resource.setrlimit(resource.RLIMIT_AS, (6 << 30, 6 << 30))
    except (ValueError, OSError):
        pass
    from space_packet_parser import packets as P
    rng = ctx.rng("c10")
    fixed = random.Random(1010)
    defn = load_definition(docs.header_plus_blob_doc())
    bases = []
    for dlens, k in (([1], 0), ([5, 1], 0), ([2, 300, 1], 0), ([1, 2], 3), ([7, 1, 40, 3], 0), ([10, 1, 1], 3)):
        # APIDs incl. the reserved ones (2047 = idle / fill, 0) and every sequence flag: a complete packet is a complete packet
        pk = [P.create_ccsds_packet(bytes(fixed.getrandbits(8) for _ in range(d)), apid=(2047, fixed.randrange(2048), 0, 2047)[(j + len(dlens)) % 4],
                                    sequence_count=fixed.randrange(16384), sequence_flags=fixed.randrange(4), version_number=fixed.randrange(8),
                                    type=fixed.randrange(2), secondary_header_flag=fixed.randrange(2)) for j, d in enumerate(dlens)]
        stream = b"".join(bytes(0x80 | fixed.getrandbits(7) for _ in range(k)) + bytes(p) for p in pk)
        borders, pos = [], 0
        for p in pk:
            borders.append(pos)
            pos += k + len(p)
        bases.append((stream, k, borders))
    kinds = [("bytes", None), ("bytesio", None), ("bytesio", 1), ("bytesio", 7), ("bytesio", 4096), ("file", None),
             ("file", 6), ("shortfile", 9), ("realfile", None), ("realfile_update", None), ("realfile_update", 8), ("socket_closed", None), ("socket_closed", 5),
             ("socketpair_closed", None)]
    entries = ["raw", "headers_only", "definition"]
    item = 0
    for stream, k, borders in bases:
        for c in range(len(stream) + 1):
            cls = cut_class(borders, k, c, len(stream))
            for kind, r in kinds:
                item += 1
                if not ctx.mine(item):
                    continue
                if kind == "socketpair_closed" and ctx.quick and c % 4:
                    continue
                for entry in entries:
                    if entry != "raw" and (item + c) % 3 and kind not in ("bytes", "bytesio"):
                        continue
                    one(ctx, stream[:c], k, kind, r, entry, defn, cls, rng, progress=(item + c) % 5 == 0)
                ctx.count("cut.cases")
                ctx.count({"in-header": "cut.in_header", "in-body": "cut.in_body", "on-border": "cut.on_border"}.get(cls, "cut.other"))
    ctx.exhaustive_space("cut offsets 0..len of 6 base streams x 14 source configurations", 1)
    # ---- large inputs: a maximum-size packet (65536 data octets) between small ones; a stream beyond the framer's 20 MB
    #      buffer-trim threshold. Cut offsets sampled: around every packet border, inside headers, and the complete stream ----
    big_cases(ctx, defn, rng)
    # ---- the two CLI commands on truncated files: they list / parse complete packets only and terminate ------------------------
    if ctx.mine(5):
        cli_truncated(ctx, bases[2][0])
    if ctx.mine(6):
        # a file beyond the listing's elision threshold (13 small packets): head / tail selection must cope with a fragment at the end
        many = b"".join(bytes(P.create_ccsds_packet(bytes([j] * (1 + j % 3)), apid=(2047, 5, 0)[j % 3], sequence_count=16383 - j)) for j in range(13))
        cli_truncated(ctx, many)
        ctx.count("cli.truncated_long_file")
    # ---- empty input on every kind, every entry -------------------------------------------------------------
    for kind, r in kinds:
        for entry in entries:
            for k in (0, 4):
                one(ctx, b"", k, kind, r, entry, defn, "empty", rng)
                one(ctx, b"", k, kind, r, entry, defn, "empty", rng, progress=True)
                ctx.count("empty.cases")
    # ---- arbitrary byte strings -------------------------------------------------------------------------------
    for i in range(ctx.size(3000, 2_000_000)):
        if not ctx.mine(i):
            continue
        n = rng.choice([1, 5, 6, 7, 8, 13, 14, 30, rng.randrange(1, 400)])
        mode = rng.randrange(3)
        if mode == 0:
            data = bytes(rng.getrandbits(8) for _ in range(n))
        elif mode == 1:   # small length fields so that several "packets" fit
            data = b"".join(bytes([rng.getrandbits(8) for _ in range(4)]) + bytes([0, rng.randrange(0, 4)]) +
                            bytes(rng.getrandbits(8) for _ in range(rng.randrange(0, 6))) for _ in range(n // 7 + 1))
        else:
            data = bytes(n)  # zeros: header with length 0 => 7-byte packets
        kind, r = rng.choice(kinds)
        if kind == "socketpair_closed" and i % 5:
            kind = "socket_closed"
        entry = rng.choice(entries)
        one(ctx, data, rng.choice([0, 0, 1, 6]), kind, r, entry, defn, "random", rng)
        ctx.count("random.cases")
        if i < 3:
            ctx.sample({"data": data[:32], "len": len(data), "kind": kind, "entry": entry,
                        "model_packets": len(model_frames(data, 0)[0])})
    s0, k0, _ = bases[2]
    ctx.sample({"base_stream_len": len(s0), "k": k0, "cut": 9, "model": [len(x) for x in model_frames(s0[:9], k0)[0]],
                "remainder": model_frames(s0[:9], k0)[1]})
