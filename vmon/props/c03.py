"""C03 — bit-cursor reads return exactly the addressed bits and advance by the width.

Monitor: icontract postconditions on RawPacketData.read_as_int / read_as_bytes / packets._extract_bits
(vmon.contracts.arm_reads), oracle = bit-string slicing. Workload: complete enumeration of (p, n) over
structured 6-byte buffers, all 64 (p mod 8, n mod 8) classes at large widths, seeded random reads, and
in-situ: the contracts stay armed while real documents decode real packets (thorough: mission replays).
"""
import os
import sys
import random

from vmon import bits, contracts
from vmon.libutil import monitored

LEVEL = "exploration"
SHARDS = {"quick": 8, "thorough": 16}
MUST = ["optimized_interpreter.reads", "read_as_int.evaluations", "read_as_bytes.evaluations", "insitu.reads", "wide.reads", "deep.reads", "mutable_source.reads", "int_subclass_widths.reads", "debug_logging.reads", "after_overlong.reads", "indomain.boundary_reads", "stateful.reads"]
RULE = ("every read_as_int/read_as_bytes/_extract_bits call made by the workload is checked by a postcondition "
        "against int(bitstring[p:p+n],2); workload = all (p,n) with p+n<=48 over 24 structured 6-byte buffers "
        "(exhaustive), all 64 (p%8,n%8) classes at widths up to 4096 bytes, seeded random reads, sequential "
        "multi-read cursor chains, and reads issued by the real decoder on real packets (in situ). "
        "distinct_nontrivial = distinct (method, p%8, n%8, width class) signatures observed, "
        "excluding nothing (n=0 reads are their own class).")
ASSUMPTIONS = ["reads with p+n beyond the buffer or n<0 are outside C03's domain (they are C14's business) and are "
               "counted as out_of_domain, not judged",
               "icontract evaluates the postcondition in the calling thread after the real function returned"]


def structured_buffers(rng):
    bufs = [bytes(6), b"\xff" * 6, b"\x0f" * 6, b"\xf0" * 6, b"\xaa" * 6, b"\x55" * 6,
            bytes([1, 2, 4, 8, 16, 32]), bytes([0x80, 0x40, 0x20, 0x10, 0x08, 0x04])]
    for i in range(0, 48, 6):  # walking one / walking zero
        bufs.append((1 << (47 - i)).to_bytes(6, "big"))
        bufs.append((((1 << 48) - 1) ^ (1 << (47 - i))).to_bytes(6, "big"))
    r = rng
    while len(bufs) < 24:
        bufs.append(bytes(r.getrandbits(8) for _ in range(6)))
    return bufs[:24]


OPT_SCRIPT = r"""
import json, random, sys
from space_packet_parser.packets import RawPacketData
rng = random.Random(int(sys.argv[1]))
n_reads = 0
for case in range(int(sys.argv[2])):
    buf = bytes(rng.getrandbits(8) for _ in range(rng.choice([1, 2, 6, 8, 9, 16, 33])))
    whole, total = int.from_bytes(buf, "big"), 8 * len(buf)
    r = RawPacketData(buf)
    pos = 0
    while pos < total:
        n = rng.randrange(1, min(total - pos, 70) + 1)
        as_bytes = rng.random() < 0.4
        want_int = (whole >> (total - pos - n)) & ((1 << n) - 1)
        if as_bytes:
            got = r.read_as_bytes(n)
            want = (want_int << (-n % 8)).to_bytes((n + 7) // 8, "big") if n % 8 and pos % 8 == 0 else want_int.to_bytes((n + 7) // 8, "big")
            if pos % 8 == 0 and n % 8 == 0:
                want = buf[pos // 8:(pos + n) // 8]
            ok = got == want or n % 8 != 0          # padding conventions of partial bytes are checked elsewhere; here: the cursor
        else:
            got = r.read_as_int(n)
            ok = got == want_int
        n_reads += 1
        if not ok or r.pos != pos + n:
            print(json.dumps({"ok": False, "buf": buf.hex(), "pos": pos, "n": n, "as_bytes": as_bytes, "got": repr(got), "cursor_after": r.pos, "reads": n_reads}))
            sys.exit(0)
        pos += n
print(json.dumps({"ok": True, "reads": n_reads, "optimize": sys.flags.optimize}))
"""


def optimized_interpreter(ctx):
    """the same read sequences in child interpreters started with -O and -OO (assert statements and docstrings stripped): value and
    cursor after every read"""
    import json
    import subprocess
    from vmon.core import REPO, HarnessError
    for flag in ("-O", "-OO"):
        env = dict(os.environ, PYTHONPATH=REPO)
        env.pop("PYTHONOPTIMIZE", None)
        p = subprocess.run([sys.executable, flag, "-c", OPT_SCRIPT, str(ctx.seed), str(ctx.size(300, 6000))], capture_output=True, text=True, timeout=900, env=env)
        if p.returncode != 0 or not p.stdout.strip():
            raise HarnessError(f"python {flag} child failed: {p.stderr[-500:]}")
        res = json.loads(p.stdout.strip().splitlines()[-1])
        ctx.count("evaluations", res["reads"])
        ctx.count("optimized_interpreter.reads", res["reads"])
        ctx.sig("interpreter", flag)
        if not res["ok"]:
            ctx.violation(f"optimized-interpreter/{'read_as_bytes' if res['as_bytes'] else 'read_as_int'}/{'cursor' if res['cursor_after'] != res['pos'] + res['n'] else 'value'}",
                          f"under python {flag}: a {res['n']}-bit read at cursor {res['pos']} returned {res['got']} and left the cursor at {res['cursor_after']}", res)


def run(ctx):
    bits.selftest()
    if ctx.shard == 5 % ctx.nshards:
        optimized_interpreter(ctx)
    from space_packet_parser import packets
    contracts.arm_reads(ctx)
    RPD = packets.RawPacketData
    rng = ctx.rng("c03")

    # ---- 1. exhaustive (p, n) over 6-byte buffers -------------------------------------------------
    bufs = structured_buffers(random.Random(7))
    k = 0
    for bi, buf in enumerate(bufs):
        if not ctx.mine(bi):
            continue
        for p in range(0, 49):
            for n in range(0, 49 - p):
                for meth in ("read_as_int", "read_as_bytes"):
                    r = RPD(buf)
                    r.pos = p
                    try:
                        getattr(r, meth)(n)
                    except Exception as ex:  # noqa: BLE001 - an in-domain read must return
                        ctx.violation(f"{meth}/exception/{type(ex).__name__}/{'n0' if n == 0 else 'n>0'}/{'at-end' if p == 48 else 'inside'}",
                                      f"{meth}({n}) at cursor {p} of a 6-byte buffer raised {ex!r} although p+n <= 48", {"buf": buf, "pos": p, "nbits": n})
                    k += 1
                if hasattr(packets, "_extract_bits"):
                    try:
                        packets._extract_bits(buf, p, n)
                    except Exception:  # noqa: BLE001 - private helper: its exceptions surface through the public reads above
                        pass
    ctx.count("evaluations", k)
    ctx.exhaustive_space("(p,n) with p+n<=48 x 24 buffers x 2 methods", k)

    # ---- 2. all 64 (p%8, n%8) classes at larger widths ---------------------------------------------
    widths = [1, 2, 7, 8, 9, 63, 64, 65, 255, 256, 1000, 4096]
    j = 0
    for pm in range(8):
        for nm in range(8):
            for wbytes in widths:
                j += 1
                if not ctx.mine(j):
                    continue
                n = wbytes * 8 + nm
                pbytes = rng.randrange(0, 5)
                total = pbytes + wbytes + 3
                buf = bytes(rng.getrandbits(8) for _ in range(total))
                p = pbytes * 8 + pm
                if p + n > total * 8:
                    continue
                for meth in ("read_as_int", "read_as_bytes"):
                    r = RPD(buf)
                    r.pos = p
                    getattr(r, meth)(n)
                    ctx.count("evaluations")

    # ---- 2a'. the same alignment classes with DEBUG logging switched on for the library's loggers (the CLI's --verbose does that):
    #           what a read returns and where it leaves the cursor does not depend on the log level --------------------------------
    import logging
    lg = logging.getLogger("space_packet_parser")
    old_level, old_prop = lg.level, lg.propagate
    lg.setLevel(logging.DEBUG)
    lg.propagate = False
    lg.addHandler(logging.NullHandler())
    try:
        for pm in range(8):
            for nm in range(8):
                for wbytes in (0, 1, 2, 8, 9, 100):
                    j += 1
                    if not ctx.mine(j):
                        continue
                    n = wbytes * 8 + nm
                    if n == 0:
                        continue
                    total = wbytes + 4
                    buf = bytes(rng.getrandbits(8) for _ in range(total))
                    for meth in ("read_as_int", "read_as_bytes"):
                        r = RPD(buf)
                        r.pos = 8 + pm
                        getattr(r, meth)(n)            # judged by the armed postcondition (value and cursor delta)
                        ctx.count("evaluations")
                        ctx.count("debug_logging.reads")
    finally:
        lg.setLevel(old_level)
        lg.propagate = old_prop
    # ---- 2a''. a read that does NOT fit (over-long, on some other buffer) must not spoil later reads of the same shape
    #            (cursor % 8, width) anywhere in the process ----------------------------------------------------------------------
    for off in range(8):
        for n in (3, 7, 9, 12, 13, 17, 31, 33, 63, 65, 100):
            j += 1
            if not ctx.mine(j):
                continue
            need = (off + n + 7) // 8
            for meth in ("read_as_int", "read_as_bytes"):
                short = RPD(bytes(rng.getrandbits(8) for _ in range(max(0, need - 1))))
                short.pos = off
                monitored(getattr(short, meth), n)            # out of C03's domain: whatever it does is not judged
                ok_buf = RPD(bytes(rng.getrandbits(8) for _ in range(need + 1)))
                ok_buf.pos = off
                getattr(ok_buf, meth)(n)                      # in-domain: judged by the postcondition
                ok2 = RPD(bytes(rng.getrandbits(8) for _ in range(need + 9)))
                ok2.pos = 64 + off
                getattr(ok2, meth)(n)
                ctx.count("evaluations", 2)
                ctx.count("after_overlong.reads", 2)
    # ---- 2a-3. the packet object is a snapshot of the bytes it was built from: built from a MUTABLE source (bytearray, a memoryview
    #             window of a reused receive buffer) it keeps returning the original bits after the source has been overwritten -----
    for trial in range(ctx.size(40, 2000)):
        j += 1
        if not ctx.mine(j):
            continue
        ln = rng.choice([7, 8, 16, 40])
        source = bytearray(rng.getrandbits(8) for _ in range(ln + 4))
        how = trial % 3
        r = RPD(source) if how == 0 else RPD(memoryview(source)[2:2 + ln]) if how == 1 else RPD(bytes(source))
        for b_ in range(len(source)):
            source[b_] ^= 0xFF                      # the receive buffer is reused
        for _ in range(4):
            p_ = rng.randrange(0, 8 * len(r))
            n_ = rng.randrange(0, min(40, 8 * len(r) - p_) + 1)
            r.pos = p_
            getattr(r, rng.choice(("read_as_int", "read_as_bytes")))(n_)      # judged against bytes(r) by the postcondition
            ctx.count("evaluations")
            ctx.count("mutable_source.reads")
    # ---- 2a-4. the width may be any integer object: the library's own IntParameter / BoolParameter (a parsed length item), an
    #              IntEnum member, a bool ---------------------------------------------------------------------------------------
    import enum
    from space_packet_parser import common as _common

    class _W(enum.IntEnum):
        NINE = 9
        SIXTEEN = 16
    for w_ in (_common.IntParameter(12, 99), _common.IntParameter(8), _common.BoolParameter(True, 7), True, _W.NINE, _W.SIXTEEN, _common.IntParameter(0)):
        for meth in ("read_as_int", "read_as_bytes"):
            r = RPD(bytes(rng.getrandbits(8) for _ in range(6)))
            r.pos = 5
            s_ = monitored(getattr(r, meth), w_)
            ctx.count("evaluations")
            ctx.count("int_subclass_widths.reads")
            if s_.exc is not None:
                ctx.violation(f"{meth}/exception/{type(s_.exc).__name__}/int-subclass-width", f"{meth}({w_!r}) [a {type(w_).__name__}] raised {s_.exc!r}",
                              {"width_type": type(w_).__name__, "width": int(w_)})
    # ---- 2b. every in-domain read must RETURN (an exception on p+n <= 8*len is a violation): boundary shapes -----------------
    for ln in (0, 1, 2, 6):
        buf = bytes(rng.getrandbits(8) for _ in range(ln))
        for p in range(0, 8 * ln + 1):
            for n in sorted(x for x in {0, 1, 8 * ln - p, max(0, 8 * ln - p - 1), min(7, 8 * ln - p)} if x <= 8 * ln - p):
                for meth in ("read_as_int", "read_as_bytes"):
                    r = RPD(buf)
                    r.pos = p
                    s_ = monitored(getattr(r, meth), n)
                    ctx.count("evaluations")
                    ctx.count("indomain.boundary_reads")
                    if s_.exc is not None:
                        ctx.violation(f"{meth}/exception/{type(s_.exc).__name__}/{'n0' if n == 0 else 'n>0'}/{'at-end' if p == 8 * ln else 'inside'}",
                                      f"{meth}({n}) at cursor {p} of a {ln}-byte buffer raised {s_.exc!r} although p+n <= 8*len", {"len": ln, "pos": p, "nbits": n})
    # ---- 2c. stateful chains with an independently tracked cursor: between reads, things that are NOT reads happen (a read that
    #          is rejected because it does not fit, header accessor / header_values access, str()): none may move the cursor ----
    for _ in range(ctx.size(300, 8000)):
        ln = rng.choice([7, 8, 12, 40])
        buf = bytes(rng.getrandbits(8) for _ in range(ln))
        r = RPD(buf)
        tracked = 0
        for step in range(rng.randrange(3, 12)):
            ev = rng.choice(["read", "read", "read", "reject", "header_values", "accessor", "str"])
            room = 8 * ln - tracked
            if ev == "read":
                n = rng.randrange(0, min(room, 40) + 1)
                meth = rng.choice(("read_as_int", "read_as_bytes"))
                s_ = monitored(getattr(r, meth), n)
                exp = bits.u(bits.bitstr(buf)[tracked:tracked + n])
                got = s_.value if meth == "read_as_int" else (int.from_bytes(s_.value, "big") if s_.exc is None else None)
                ctx.count("evaluations")
                ctx.count("stateful.reads")
                if s_.exc is not None or got != exp or r.pos != tracked + n:
                    ctx.violation(f"stateful/{meth}/after-{prev_ev if step else 'start'}",
                                  f"read {step} of a chain: {meth}({n}) with the cursor expected at {tracked}: got {s_.value!r}/{s_.exc!r}, cursor {r.pos}; expected value {exp}, cursor {tracked + n}",
                                  {"buf": buf, "tracked_cursor": tracked, "nbits": n, "previous_event": prev_ev if step else None})
                    break
                tracked += n
            elif ev == "reject":
                s_ = monitored(r.read_as_bytes, room + rng.randrange(1, 64))   # does not fit: must be rejected ...
                if s_.exc is None:
                    break   # (over-reads that are not rejected are C14's business)
            elif ev == "header_values":
                monitored(lambda: r.header_values)
            elif ev == "accessor":
                monitored(lambda: (r.apid, r.sequence_count, r.data_length, r.version_number))
            else:
                monitored(str, r)
            prev_ev = ev
            if r.pos != tracked:
                ctx.violation(f"stateful/cursor-moved-by/{ev}", f"after a '{ev}' event (not a read) the cursor is {r.pos}, expected {tracked}",
                              {"buf": buf, "event": ev, "tracked_cursor": tracked})
                break
    # ---- 3. seeded random reads, incl. cursor chains (several reads on one object) ---------------
    nrand = ctx.size(100_000, 2_000_000)
    done = 0
    while done < nrand:
        ln = rng.choice([1, 2, 3, 7, 8, 9, 16, 33, 100, rng.randrange(1, 300)])
        buf = bytes(rng.getrandbits(8) for _ in range(ln))
        r = RPD(buf)
        r.pos = rng.randrange(0, ln * 8 + 1)
        chain = []
        for _ in range(rng.randrange(1, 8)):
            room = ln * 8 - r.pos
            n = rng.choice([0, 1, rng.randrange(0, 9), rng.randrange(0, room + 1), room]) if room else 0
            n = min(n, room)
            meth = rng.choice(("read_as_int", "read_as_bytes"))
            chain.append((meth, r.pos, n))
            getattr(r, meth)(n)
            done += 1
        if done < 40:
            ctx.sample({"buffer": buf[:16], "len": ln, "reads": chain})
    ctx.count("evaluations", done)

    # ---- 3b. very wide reads (a binary field may span a whole 65542-byte packet) mixed with narrow reads, on one
    #          object and across objects, in both orders: widths around multiples of 65536 bits and beyond ---------------
    big = bytes(rng.getrandbits(8) for _ in range(70_000))
    wides = [65535, 65536, 65537, 65549, 2 * 65536 + 5, 3 * 65536 + 13, 8 * 65536 - 1, 524_000 + rng.randrange(100)]
    w = 0
    for n in wides:
        for off in range(8):
            w += 1
            if not ctx.mine(w):
                continue
            narrow = [(o2, n2) for o2 in sorted({off, off | (n >> 16) & 7, (off + 3) % 8}) for n2 in sorted({n % 65536, 13, 1, (n % 65536) + 1} - {0})]
            for order in (0, 1):
                seqs = ([(off, n)] + narrow) if order == 0 else (narrow + [(off, n)])
                for meth in ("read_as_int", "read_as_bytes"):
                    r = RPD(big)
                    for o_, n_ in seqs:
                        if o_ + n_ > 8 * len(big):
                            continue
                        r.pos = o_
                        # the interpreter's default limit on int -> decimal str conversion is in force while the library runs (the
                        # harness lifts it only for its own witnesses): a wide read must not depend on formatting its value
                        lim = sys.get_int_max_str_digits() if hasattr(sys, "get_int_max_str_digits") else None
                        if lim is not None:
                            sys.set_int_max_str_digits(4300)
                        try:
                            s_w = monitored(getattr(r, meth), n_)
                        finally:
                            if lim is not None:
                                sys.set_int_max_str_digits(lim)
                        if s_w.exc is not None:
                            ctx.violation(f"{meth}/exception/{type(s_w.exc).__name__}/wide", f"{meth}({n_}) at bit {o_} raised {str(s_w.exc)[:200]!r}", {"pos": o_, "nbits": n_})
                            continue
                        fresh = RPD(big[:(o_ + n_ + 7) // 8 + 1])
                        fresh.pos = o_
                        getattr(fresh, meth)(n_)
                        ctx.count("evaluations", 2)
                        ctx.count("wide.reads")
    # ---- 3c. buffers longer than one maximum-size packet (combined segmented packets are): reads that start or end beyond
    #          byte 65542, narrow and wide, must return the addressed bits like anywhere else --------------------------------
    deep = bytes(rng.getrandbits(8) for _ in range(140_000))
    dj = 0
    for base in (65_530, 65_541, 65_542, 65_543, 69_999, 131_070, 131_084, 139_990):
        for off in range(8):
            dj += 1
            if not ctx.mine(dj):
                continue
            for n in (1, 7, 8, 13, 64, 65, 800, 8 * (len(deep) - base) - off, 8 * (len(deep) - base) - off - 3):
                if n <= 0 or 8 * base + off + n > 8 * len(deep):
                    continue
                for meth in ("read_as_int", "read_as_bytes"):
                    r = RPD(deep)
                    r.pos = 8 * base + off
                    s_ = monitored(getattr(r, meth), n)
                    ctx.count("evaluations")
                    ctx.count("deep.reads")
                    if s_.exc is not None:
                        ctx.violation(f"{meth}/exception/{type(s_.exc).__name__}/beyond-one-max-packet",
                                      f"{meth}({n}) at bit {8 * base + off} of a {len(deep)}-byte buffer raised {s_.exc!r} although the read fits",
                                      {"len": len(deep), "pos": 8 * base + off, "nbits": n})
            # a whole-buffer read from the start, ending beyond 65542 bytes
            for meth in ("read_as_int", "read_as_bytes"):
                r = RPD(deep)
                r.pos = off
                n = 8 * (base + 5) - off
                s_ = monitored(getattr(r, meth), n)
                ctx.count("deep.reads")
                if s_.exc is not None:
                    ctx.violation(f"{meth}/exception/{type(s_.exc).__name__}/beyond-one-max-packet", f"{meth}({n}) at bit {off} of a {len(deep)}-byte buffer raised {s_.exc!r}",
                                  {"len": len(deep), "pos": off, "nbits": n})
    # ---- 4. in situ: the real decoder's own reads -------------------------------------------------
    insitu(ctx)
    # ---- 5. the repository's own tests with the contracts armed -------------------------------------
    if ctx.mine(7):
        repo_tests_under_contracts(ctx)


def repo_tests_under_contracts(ctx):
    """pytest in a child process with vmon.pytest_plugin: every read the repository's tests cause is judged too"""
    import json
    import subprocess
    import sys
    import tempfile
    from vmon import core
    sel = ["tests/unit/test_packets.py", "tests/unit/test_xtce/test_encodings.py", "tests/unit/test_xtce/test_parameter_types.py"] \
        if ctx.quick else ["tests/unit", "tests/integration"]
    fd, out = tempfile.mkstemp(prefix="vmon-plugin-", suffix=".json", dir=os.environ.get("VMON_SCRATCH"))
    os.close(fd)
    env = dict(os.environ, VMON_PLUGIN_OUT=out)
    p = subprocess.run([sys.executable, "-m", "pytest", "-q", "-p", "no:cacheprovider", "-p", "no:randomly", "-p", "vmon.pytest_plugin",
                        "--timeout=900"] + sel, cwd=core.REPO, env=env, capture_output=True, text=True, timeout=3000)
    try:
        with open(out) as f:
            res = json.load(f)
    except (OSError, ValueError):
        ctx.note("repo tests under contracts: no plugin output (pytest rc=%s) %s" % (p.returncode, p.stdout[-300:]))
        return
    finally:
        if os.path.exists(out):
            os.unlink(out)
    n = 0
    for k, v in res["counters"].items():
        if k.endswith(".evaluations"):
            ctx.count("repotests." + k, v)
            n += v
    ctx.count("evaluations", n)
    ctx.count("repotests.pytest_exitstatus", res["counters"].get("pytest.exitstatus", 0))
    ctx.count("repotests.tests_collected", res["counters"].get("pytest.tests_collected", 0))
    for key, v in res["violations"].items():
        for w in v["witnesses"][:2]:
            ctx.violation("repotests/" + key, v["msg"], w.get("witness"))


def insitu(ctx):
    """Decode real packets with real documents while the contracts are armed."""
    from vmon import core
    import space_packet_parser as spp
    data = os.path.join(core.REPO, "tests", "test_data")
    jobs = [("jpss/jpss1_geolocation_xtce_v1.xml", "jpss/J01_G011_LZ_2021-04-09T00-00-00Z_V01.DAT1", {}, 60, 2000),
            ("suda/suda_combined_science_definition.xml", "suda/sciData_2022_130_17_41_53.spl",
             {"skip_header_bytes": 4}, 12, 1000),
            ("ctim/ctim_xtce_v1.xml", "ctim/ccsds_2021_155_14_39_51",
             {"root_container_name": "CCSDSTelemetryPacket"}, 25, 1000),
            ("idex/idex_combined_science_definition.xml", "idex/sciData_2023_052_14_45_05", {}, 6, 200)]
    import warnings
    for ji, (xml, pkt, kw, nq, nt) in enumerate(jobs):
        if not ctx.mine(ji):
            continue
        limit = ctx.size(nq, nt)
        before = ctx.counters["read_as_int.evaluations"] + ctx.counters["read_as_bytes.evaluations"]
        with warnings.catch_warnings():
            warnings.simplefilter("ignore")
            d = spp.load_xml(os.path.join(data, xml))
            with open(os.path.join(data, pkt), "rb") as f:
                gen = d.packet_generator(f, **kw)
                for i, _ in enumerate(gen):
                    if i + 1 >= limit:
                        break
                gen.close()
        after = ctx.counters["read_as_int.evaluations"] + ctx.counters["read_as_bytes.evaluations"]
        ctx.count("insitu.reads", after - before)
        ctx.count("evaluations", after - before)
        ctx.count(f"insitu.{xml.split('/')[0]}.reads", after - before)
