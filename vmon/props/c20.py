"""C20 — parsed values are drop-in built-ins with a raw value and survive copying.

Monitor: for each value v of the five value classes and its plain built-in twin b, a fixed battery of
operations is executed on both and every outcome (result, result type, or exception class) compared;
raw_value defaulting and copy/deepcopy/pickle round trips are checked on values and on whole parsed packets.
Values come from a directed boundary set, seeded random, and from real parses of mission packets.
"""
import copy
import itertools
import math
import os
import pickle
import warnings

from vmon import bits

LEVEL = "exploration"
SHARDS = {"quick": 8, "thorough": 16}
MUST = ["battery.int", "battery.float", "battery.str", "battery.bytes", "battery.bool", "copy.values", "copy.packets",
        "rawdefault.checks", "pair.ops", "harvested.segmented_packets", "copy.independence_checks", "rewrap.checks", "rewrap.compared", "harvested.values", "harvested.raw_value_types", "harvested.class_vs_model"]
RULE = ("for every (class, value, raw_value) case the harness builds v = Class(value[, raw_value]) and the plain "
        "built-in twin, runs ~60 operations on both (comparison, hash, bool, repr/str/format, arithmetic, "
        "conversion, slicing, containment, codec, dict-key and sort use) and compares outcome and outcome type "
        "(or exception class); checks isinstance, raw_value presence and defaulting (incl. 0/False/''/b''), and "
        "copy/deepcopy/pickle protocols 0..5 for values and for whole parsed packets (items, order, raw bytes, "
        "cursor); a value object handed as the built-in to each compatible value class without a raw value must give the same "
        "value and raw_value as the plain built-in; for parsed values of generated documents (half of them leaning on context "
        "calibrators) the class must be the one the reference model derives from the parameter's definition; ~17 binary operations "
        "between two value objects whose raw values order differently from their values. distinct_nontrivial = distinct (class, value category, raw category) signatures, where "
        "category distinguishes zero/falsy, negative, huge, nan, inf, empty, non-ASCII, NUL-containing, ordinary; "
        "(IntParameter, ordinary, none) is the trivial signature and is excluded.")
ASSUMPTIONS = ["BoolParameter is int-backed; it is compared with bool for repr and with int(bool) for arithmetic, "
               "and str()/format() are compared with the int twin because bool cannot be subclassed (documented)",
               "object identity, type() and __class__-revealing operations are not part of 'behaves like'"]


def same(a, b):
    """result equality incl. type; floats bit-level"""
    if isinstance(a, float) and isinstance(b, float):
        return bits.same_float(a, b)
    if isinstance(a, tuple) and isinstance(b, tuple):
        return len(a) == len(b) and all(same(x, y) for x, y in zip(a, b))
    if isinstance(a, complex) or isinstance(b, complex):
        return repr(a) == repr(b)
    return a == b


def plain_type(x):
    """map parameter classes to their built-in base for result-type comparison"""
    for t in (bool, int, float, str, bytes):
        if isinstance(x, t):
            return t
    return type(x)


def outcome(fn):
    try:
        with warnings.catch_warnings():
            warnings.simplefilter("ignore")
            return ("ok", fn())
    except Exception as e:  # noqa: BLE001
        return ("exc", type(e).__name__)


NUM_OTHERS = [0, 1, -1, 2, 3, 7, 0.5, -2.5, 10 ** 20, 1e308]


def ops_numeric(kind):
    ops = {
        "eq_self": lambda x: x == x, "ne_self": lambda x: x != x, "hash": hash, "bool": bool, "not": lambda x: not x,
        "repr": repr, "str": str, "fmt_empty": lambda x: format(x, ""), "fmt_08": lambda x: format(x, "08"),
        "fmt_e": lambda x: format(x, ".3e"), "fmt_f": lambda x: f"{x:>12.2f}", "fmt_pct": lambda x: "%s|%r" % (x, x),
        "neg": lambda x: -x, "pos": lambda x: +x, "abs": abs, "int": int, "float": float, "complex": complex,
        "round": round, "round2": lambda x: round(x, 2), "divmod3": lambda x: divmod(x, 3),
        "trunc": math.trunc, "floor": math.floor, "ceil": math.ceil, "isfinite": math.isfinite,
        "dictkey": lambda x: {x: 1}.get(x), "in_list": lambda x: x in [x], "sorted": lambda x: sorted([3, x, -1.5])
        if x == x else None, "min": lambda x: min(x, 1), "max": lambda x: max(x, 1),
        "as_integer_ratio": lambda x: x.as_integer_ratio(), "jsonish": lambda x: __import__("json").dumps(x),
        "is_integer": lambda x: x.is_integer(),
    }
    if kind in ("int", "bool"):
        ops.update({
            "fmt_x": lambda x: format(x, "x"), "fmt_b": lambda x: format(x, "#b"), "fmt_d": lambda x: f"{x:,d}",
            "index": lambda x: [10, 20, 30][x], "bit_length": lambda x: x.bit_length(), "invert": lambda x: ~x,
            "lshift": lambda x: x << 3, "rshift": lambda x: x >> 1, "and": lambda x: x & 0xFF, "or": lambda x: x | 1,
            "xor": lambda x: x ^ 5, "to_bytes": lambda x: x.to_bytes(16, "big", signed=True), "range": lambda x: len(range(x % 50)),
            "hex": hex, "oct": oct, "bin": bin, "chr": lambda x: chr(x), "bytesmul": lambda x: b"ab" * (x % 5),
            "pow_mod": lambda x: pow(x, 3, 7),
        })
    if kind == "float":
        ops.update({"hex": lambda x: x.hex(), "fmt_g": lambda x: format(x, "g")})
    for i, o in enumerate(NUM_OTHERS):
        ops.update({
            f"eq_{i}": lambda x, o=o: x == o, f"lt_{i}": lambda x, o=o: x < o, f"ge_{i}": lambda x, o=o: x >= o,
            f"req_{i}": lambda x, o=o: o == x, f"rlt_{i}": lambda x, o=o: o < x,
            f"add_{i}": lambda x, o=o: x + o, f"radd_{i}": lambda x, o=o: o + x, f"sub_{i}": lambda x, o=o: x - o,
            f"rsub_{i}": lambda x, o=o: o - x, f"mul_{i}": lambda x, o=o: x * o, f"truediv_{i}": lambda x, o=o: x / o,
            f"rtruediv_{i}": lambda x, o=o: o / x, f"floordiv_{i}": lambda x, o=o: x // o, f"mod_{i}": lambda x, o=o: x % o,
            f"rmod_{i}": lambda x, o=o: o % x,
        })
    ops.update({"pow2": lambda x: x ** 2, "rpow": lambda x: 2 ** (x if abs(x) < 64 else 1), "pow_half": lambda x: x ** 0.5})
    return ops


def ops_str():
    return {
        "eq_self": lambda x: x == x, "hash": hash, "bool": bool, "repr": repr, "str": str, "len": len,
        "fmt": lambda x: format(x, ">10"), "fmt_pct": lambda x: "%s|%r" % (x, x), "fstr": lambda x: f"{x!s:^7}|{x!r}",
        "eq_lit": lambda x: x == "OFF", "lt": lambda x: x < "M", "gt": lambda x: x > "", "req": lambda x: "A" == x,
        "add": lambda x: x + "z", "radd": lambda x: "z" + x, "mul": lambda x: x * 2, "slice": lambda x: x[1:3],
        "idx0": lambda x: x[0], "neg_idx": lambda x: x[-1], "rev": lambda x: x[::-1], "in": lambda x: "A" in x,
        "contains_self": lambda x: x in x + "!", "iter": lambda x: list(x), "upper": lambda x: x.upper(),
        "lower": lambda x: x.lower(), "strip": lambda x: x.strip("\x00 "), "split": lambda x: x.split("_"),
        "join": lambda x: x.join(["a", "b"]), "encode": lambda x: x.encode("utf-8"),
        "encode16": lambda x: x.encode("utf-16-be"), "startswith": lambda x: x.startswith("A"),
        "replace": lambda x: x.replace("A", "B"), "find": lambda x: x.find("A"), "count": lambda x: x.count(""),
        "isdigit": lambda x: x.isdigit(), "int": lambda x: int(x), "float": lambda x: float(x),
        "dictkey": lambda x: {x: 1}.get(x), "sorted": lambda x: sorted(["m", x, ""]), "zfill": lambda x: x.zfill(6),
        "pctfmt": lambda x: x % (), "casefold": lambda x: x.casefold(), "bytes": lambda x: bytes(x, "latin-1"),
        "json": lambda x: __import__("json").dumps(x), "ne": lambda x: x != "x", "eq_bytes": lambda x: x == b"A",
    }


def ops_bytes():
    return {
        "eq_self": lambda x: x == x, "hash": hash, "bool": bool, "repr": repr, "str": lambda x: str(x), "len": len,
        "fmt_pct": lambda x: b"%s|%r" % (x, x), "eq_lit": lambda x: x == b"\x00", "lt": lambda x: x < b"\x80",
        "req": lambda x: b"A" == x, "add": lambda x: x + b"z", "radd": lambda x: b"z" + x, "mul": lambda x: x * 2,
        "slice": lambda x: x[1:3], "idx0": lambda x: x[0], "neg_idx": lambda x: x[-1], "rev": lambda x: x[::-1],
        "in": lambda x: b"A" in x, "in_int": lambda x: 0 in x, "iter": lambda x: list(x), "hex": lambda x: x.hex(),
        "decode": lambda x: x.decode("utf-8"), "decode_l1": lambda x: x.decode("latin-1"),
        "strip0": lambda x: x.rstrip(b"\x00"), "split": lambda x: x.split(b"\x00"), "join": lambda x: x.join([b"a", b"b"]),
        "int_from": lambda x: int.from_bytes(x, "big"), "bytearray": lambda x: bytearray(x), "bytes": lambda x: bytes(x),
        "memoryview": lambda x: memoryview(x).tolist(), "dictkey": lambda x: {x: 1}.get(x),
        "sorted": lambda x: sorted([b"m", x, b""]), "startswith": lambda x: x.startswith(b"\x00"),
        "find": lambda x: x.find(b"\x00"), "count": lambda x: x.count(b""), "upper": lambda x: x.upper(),
        "struct": lambda x: __import__("struct").unpack(">H", x[:2]), "ne": lambda x: x != b"x", "eq_str": lambda x: x == "A",
        "center": lambda x: x.center(9, b"-"), "isalnum": lambda x: x.isalnum(),
    }


def category(v):
    if isinstance(v, bool):
        return "true" if v else "false"
    if isinstance(v, int):
        return "zero" if v == 0 else "neg" if v < 0 else "huge" if v >= 2 ** 64 else "ord"
    if isinstance(v, float):
        return ("nan" if v != v else "inf" if v in (math.inf, -math.inf) else
                ("negzero" if math.copysign(1, v) < 0 else "zero") if v == 0 else "neg" if v < 0 else "ord")
    if isinstance(v, str):
        return "empty" if v == "" else "nonascii" if not v.isascii() else "nul" if "\x00" in v else "ord"
    if isinstance(v, bytes):
        return "empty" if v == b"" else "nul" if b"\x00" in v else "high" if max(v) > 127 else "ord"
    return "none" if v is None else type(v).__name__


def check_value(ctx, cls, kind, base, value, raw, has_raw, origin="directed"):
    """value: the plain built-in twin's value. raw: raw_value to pass (ignored if not has_raw)."""
    from space_packet_parser import common
    ctx.count("evaluations")
    ctx.count(f"battery.{kind}")
    wit = {"class": cls.__name__, "value": value, "raw": raw if has_raw else "(not given)", "origin": origin}
    try:
        v = cls(value, raw) if has_raw else cls(value)
    except Exception as e:  # noqa: BLE001
        ctx.violation(f"construct/{cls.__name__}/{type(e).__name__}", f"constructing {cls.__name__}({value!r}) raised {e!r}", wit)
        return None
    sigp = (cls.__name__, category(value), category(raw) if has_raw else "none")
    if sigp != ("IntParameter", "ord", "none"):
        ctx.sig(*sigp)
    twin = base(value)
    if not isinstance(v, base if kind != "bool" else int):
        ctx.violation(f"isinstance/{cls.__name__}", f"{cls.__name__} value is not an instance of {base.__name__}", wit)
    # ---- raw_value presence / defaulting ---------------------------------------------------------------
    ctx.count("rawdefault.checks")
    if not hasattr(v, "raw_value"):
        ctx.violation(f"raw_value/missing/{cls.__name__}", "no raw_value attribute", wit)
    else:
        rv = v.raw_value
        if has_raw and raw is not None:
            if type(rv) is not type(raw) or not same(rv, raw):
                ctx.violation(f"raw_value/given/{cls.__name__}/{category(raw)}", f"raw_value {rv!r} != given {raw!r}", wit)
        else:
            # no separate raw value: raw_value equals the value itself (also for 0 / False / "" / b"")
            if not same(plain(rv), plain(twin)) or not isinstance(rv, base if kind != "bool" else int):
                ctx.violation(f"raw_value/default/{cls.__name__}/{category(value)}", f"raw_value {rv!r} != value {twin!r}", wit)
    # ---- a value object used as the drop-in built-in when constructing another value without a raw value: like the
    # plain built-in, it has no separate raw value to hand over
    compat = {"int": ("IntParameter", "FloatParameter"), "bool": ("IntParameter", "FloatParameter", "BoolParameter"),
              "float": ("FloatParameter",), "str": ("StrParameter",), "bytes": ("BinaryParameter",)}[kind]
    for cname in compat:
        c2 = getattr(common, cname)
        if kind == "float" and value != value:
            continue
        a, b = outcome(lambda: c2(v)), outcome(lambda: c2(twin))
        ctx.count("rewrap.checks")
        if a[0] != b[0]:
            ctx.violation(f"rewrap/{cls.__name__}->{cname}/outcome", f"{cname}({cls.__name__} value) -> {a}, {cname}(built-in) -> {b}", wit)
        elif a[0] == "ok":
            x, y = a[1], b[1]
            ctx.count("rewrap.compared")
            if not same(plain(x), plain(y)) or type(plain(x.raw_value)) is not type(plain(y.raw_value)) or not same(plain(x.raw_value), plain(y.raw_value)):
                ctx.violation(f"rewrap/{cls.__name__}->{cname}/{'raw_value' if same(plain(x), plain(y)) else 'value'}",
                              f"{cname}({cls.__name__}({value!r}, raw {getattr(v, 'raw_value', None)!r})) has value {x!r} raw_value {x.raw_value!r}; "
                              f"built from the plain built-in: value {y!r} raw_value {y.raw_value!r}", wit)
    # ---- the battery -------------------------------------------------------------------------------------
    ops = ops_numeric(kind) if kind in ("int", "float", "bool") else ops_str() if kind == "str" else ops_bytes()
    int_twin = int(value) if kind == "bool" else None
    for name, fn in ops.items():
        if name in ("hash", "dictkey") and kind == "float" and value != value:
            continue  # hash(nan) is identity-based since Python 3.10; the twin is a different object
        a, b = outcome(lambda: fn(v)), outcome(lambda: fn(twin))
        ctx.count("battery.ops")
        bad = compare_outcomes(a, b)
        if bad and kind == "bool":
            # int-backed boolean: an outcome equal to what the plain int gives is also "like the built-in"
            bad = compare_outcomes(a, outcome(lambda: fn(int_twin)))
        if bad:
            ctx.violation(f"battery/{cls.__name__}/{name}/{bad}", f"{name}({cls.__name__}({value!r})) -> {a}, built-in -> {b}",
                          dict(wit, op=name, got=a, builtin=b))
    # ---- copy / deepcopy / pickle -------------------------------------------------------------------------
    ctx.count("copy.values")
    routes = [("copy", copy.copy), ("deepcopy", copy.deepcopy)]
    routes += [(f"pickle{p}", lambda x, p=p: pickle.loads(pickle.dumps(x, protocol=p))) for p in range(0, 6)]
    for rname, r in routes:
        o = outcome(lambda: r(v))
        if o[0] == "exc":
            ctx.violation(f"copy/{cls.__name__}/{rname}/exception", f"{rname} raised {o[1]}", wit)
            continue
        c = o[1]
        if type(c) is not cls:
            ctx.violation(f"copy/{cls.__name__}/{rname}/class", f"{rname} gave {type(c).__name__}", wit)
        elif not same(plain(c), plain(v)):
            ctx.violation(f"copy/{cls.__name__}/{rname}/value", f"{rname} changed value {v!r} -> {c!r}", wit)
        elif not hasattr(c, "raw_value") or type(c.raw_value) is not type(v.raw_value) or not same(plain(c.raw_value), plain(v.raw_value)):
            ctx.violation(f"copy/{cls.__name__}/{rname}/raw_value", f"{rname} changed raw_value {v.raw_value!r} -> {getattr(c, 'raw_value', '<missing>')!r}", wit)
    return v


def compare_outcomes(a, b):
    if a[0] != b[0]:
        return "outcome"
    if a[0] == "exc":
        return "exception-class" if a[1] != b[1] else None
    ra, rb = a[1], b[1]
    if not same(plainify(ra), plainify(rb)):
        return "result"
    if plain_type(ra) is not plain_type(rb):
        return "result-type"
    return None


def plain(x):
    for t in (float, int, str, bytes):
        if isinstance(x, t):
            return t(x)
    return x


def plainify(x):
    if isinstance(x, (list, tuple)):
        return tuple(plainify(i) for i in x)
    if isinstance(x, dict):
        return tuple(sorted((repr(k), plainify(v)) for k, v in x.items()))
    if isinstance(x, (bytearray, memoryview)):
        return bytes(x)
    return plain(x)


def check_packet_copy(ctx, pkt, origin):
    from space_packet_parser import packets
    ctx.count("evaluations")
    ctx.count("copy.packets")
    routes = [("copy", copy.copy), ("deepcopy", copy.deepcopy)]
    routes += [(f"pickle{p}", lambda x, p=p: pickle.loads(pickle.dumps(x, protocol=p))) for p in (0, 2, 4, 5)]
    wit = {"origin": origin, "keys": list(pkt.keys())[:12], "raw_len": len(pkt.raw_data), "pos": pkt.raw_data.pos}
    for rname, r in routes:
        o = outcome(lambda: r(pkt))
        if o[0] == "exc":
            ctx.violation(f"copy/packet/{rname}/exception", f"{rname} of a parsed packet raised {o[1]}", wit)
            continue
        c = o[1]
        if type(c) is not packets.CCSDSPacket:
            ctx.violation(f"copy/packet/{rname}/class", f"{type(c).__name__}", wit)
            continue
        if list(c.keys()) != list(pkt.keys()):
            ctx.violation(f"copy/packet/{rname}/keys", "item order/keys changed", wit)
            continue
        for k in pkt:
            a, b = pkt[k], c[k]
            if not hasattr(a, "raw_value"):
                ctx.violation(f"packet/item-without-raw_value/{type(a).__name__}", f"item {k} of a parsed packet is a plain {type(a).__name__} ({a!r}) without raw_value",
                              dict(wit, item=k))
                break
            if type(a) is not type(b) or not same(plain(a), plain(b)) or type(a.raw_value) is not type(b.raw_value) \
                    or not same(plain(a.raw_value), plain(b.raw_value)):
                ctx.violation(f"copy/packet/{rname}/item", f"item {k}: {a!r}/{a.raw_value!r} -> {b!r}/{getattr(b, 'raw_value', None)!r}", wit)
                break
        rd = getattr(c, "raw_data", None)
        if rd is None or bytes(rd) != bytes(pkt.raw_data) or type(rd) is not packets.RawPacketData:
            ctx.violation(f"copy/packet/{rname}/raw_data", "raw bytes changed or lost", wit)
        elif rd.pos != pkt.raw_data.pos:
            ctx.violation(f"copy/packet/{rname}/cursor", f"cursor {pkt.raw_data.pos} -> {rd.pos}", wit)
        def same_view(a, b):   # NaN-aware (a copied NaN is a different object and compares unequal to the original)
            return list(a) == list(b) and all(same(plain(a[k]), plain(b[k])) for k in a)
        if not same_view(c.header, pkt.header) or not same_view(c.user_data, pkt.user_data):
            ctx.violation(f"copy/packet/{rname}/views", "header/user_data views differ", wit)
        # a deep copy / an unpickled packet is independent of the original: what happens to one afterwards (its cursor moving on,
        # items added) leaves the other unchanged - e.g. a snapshot of a partially parsed packet
        if rname != "copy" and rd is not None and type(rd) is packets.RawPacketData:
            p0, n0 = pkt.raw_data.pos, len(pkt)
            rd.pos = (rd.pos + 5) % (8 * len(rd) + 1)
            c["__added_to_the_copy__"] = 1
            ctx.count("copy.independence_checks")
            if pkt.raw_data.pos != p0 or len(pkt) != n0:
                ctx.violation(f"copy/packet/{rname}/not-independent", f"moving the cursor of / adding an item to the {rname} changed the original "
                              f"(cursor {p0} -> {pkt.raw_data.pos}, items {n0} -> {len(pkt)})", wit)
                pkt.raw_data.pos = p0
                pkt.pop("__added_to_the_copy__", None)
            p1 = rd.pos
            pkt.raw_data.pos = (p0 + 3) % (8 * len(rd) + 1)
            if rd.pos != p1:
                ctx.violation(f"copy/packet/{rname}/not-independent", f"moving the cursor of the original changed the {rname} (cursor {p1} -> {rd.pos})", wit)
            pkt.raw_data.pos = p0


def run(ctx):
    from space_packet_parser import common
    rng = ctx.rng("c20")
    I, F, S, B, O = (common.IntParameter, common.FloatParameter, common.StrParameter, common.BinaryParameter,
                     common.BoolParameter)
    ints = [0, 1, -1, 2, 7, 255, -128, 2 ** 31, -2 ** 63, 2 ** 64, 2 ** 70, -2 ** 70 + 1, 65535]
    floats = [0.0, -0.0, 1.0, -1.5, 0.1, 1e-310, 5e-324, 1.7976931348623157e308, math.inf, -math.inf, math.nan, 2.5, 1e16, -3.0]
    strs = ["e\u0301", "\u2126", "\u212b", "\u1100\u1161", "", "A", "OFF", "ON_1", "héllo", "日本", "a\x00b", "\x00", "12", "3.5", " pad ", "%s", "A" * 40, "\U0001F680x"]
    byts = [b"", b"\x00", b"\x00\x00", b"A", b"abc\x00", b"\xff\xfe", b"\x80", b"12", bytes(range(256)), b"\x00A\x00", b"%s"]
    raws = [None, 0, 1, -1, 0.0, 2.5, b"", b"\x00\x01", "", "x", False, 2 ** 70]

    cases = []
    for v in ints:
        cases.append((I, "int", int, v, None, False))
        for r in raws:
            cases.append((I, "int", int, v, r, True))
    for v in floats:
        cases.append((F, "float", float, v, None, False))
        for r in raws:
            cases.append((F, "float", float, v, r, True))
    for v in strs:
        cases.append((S, "str", str, v, None, False))
        for r in raws:
            cases.append((S, "str", str, v, r, True))
    for v in byts:
        cases.append((B, "bytes", bytes, v, None, False))
        for r in raws:
            cases.append((B, "bytes", bytes, v, r, True))
    for v in (False, True):
        cases.append((O, "bool", bool, v, None, False))
        for r in raws:
            cases.append((O, "bool", bool, v, r, True))
    # seeded random
    for _ in range(ctx.size(1500, 100_000)):
        k = rng.randrange(5)
        r = rng.choice(raws + [rng.getrandbits(16), rng.random()])
        has = rng.random() < 0.7
        if k == 0:
            cases.append((I, "int", int, rng.choice([rng.getrandbits(rng.randrange(1, 90)), -rng.getrandbits(40)]), r, has))
        elif k == 1:
            import struct
            cases.append((F, "float", float, struct.unpack(">d", rng.getrandbits(64).to_bytes(8, "big"))[0], r, has))
        elif k == 2:
            cases.append((S, "str", str, "".join(chr(rng.choice([rng.randrange(0, 128), rng.randrange(128, 0x800), 0])) for _ in range(rng.randrange(0, 9))), r, has))
        elif k == 3:
            cases.append((B, "bytes", bytes, bytes(rng.choice([0, rng.getrandbits(8)]) for _ in range(rng.randrange(0, 9))), r, has))
        else:
            cases.append((O, "bool", bool, bool(rng.getrandbits(1)), r, has))
    for i, (cls, kind, base, v, r, has) in enumerate(cases):
        if ctx.mine(i):
            check_value(ctx, cls, kind, base, v, r, has)
            if i < 40:
                ctx.sample({"class": cls.__name__, "value": v, "raw_value_given": r if has else "(none)"})

    pair_battery(ctx, rng)
    harvest_segmented(ctx)
    harvest(ctx)
    harvest_generated(ctx)


def harvest_segmented(ctx):
    """packets re-assembled from segments (combine_segmented_packets=True): every item of what the generator yields is still a
    value object of the five classes carrying its raw value, and the packet survives copying"""
    from space_packet_parser import common
    from vmon import docs
    from vmon.libutil import load_definition
    from vmon.props import c12
    defn = load_definition(docs.header_plus_blob_doc())
    five = (common.IntParameter, common.FloatParameter, common.StrParameter, common.BinaryParameter, common.BoolParameter)
    for hi, hist in enumerate(([("F", 0, False), ("C", 0, False), ("L", 0, False)], [("U", 0, False), ("F", 1, False), ("L", 1, False), ("U", 1, False)],
                               [("F", 0, False), ("F", 1, False), ("L", 0, False), ("C", 1, False), ("L", 1, False)])):
        if not ctx.mine(hi):
            continue
        pk = c12.make_packets(hist, 16382, (10, 20))
        with warnings.catch_warnings():
            warnings.simplefilter("ignore")
            out = list(defn.packet_generator(b"".join(p["raw"] for p in pk), combine_segmented_packets=True, secondary_header_bytes=(0, 4, 1)[hi]))
        for pkt in out:
            ctx.count("evaluations")
            ctx.count("harvested.segmented_packets")
            for name, val in pkt.items():
                if type(val) not in five or not hasattr(val, "raw_value"):
                    ctx.violation(f"harvest/segmented/class/{type(val).__name__}", f"item {name} of a packet re-assembled from segments is a {type(val).__name__} "
                                  f"({val!r}), raw_value {'present' if hasattr(val, 'raw_value') else 'missing'}", {"history": hi, "item": name})
                    break
            else:
                check_packet_copy(ctx, pkt, origin=f"segmented:{hi}")


def pair_battery(ctx, rng):
    """operations BETWEEN two value objects (both carrying raw values that order / compare differently from the values):
    the outcome must be what the two plain built-ins give"""
    import operator
    from space_packet_parser import common
    pools = {
        "StrParameter": (str, [("HIGH", 2), ("LOW", 0), ("MEDIUM", 1), ("", 3), ("LOW", 7), ("a", b"z"), ("b", b"a"), ("OFF", None)]),
        "IntParameter": (int, [(5, 9), (7, 1), (0, 100), (-3, 2.5), (7, 7), (2 ** 70, 0), (1, None)]),
        "FloatParameter": (float, [(1.5, 1000), (2.5, 10), (0.0, 5), (-0.0, 1), (float("inf"), 0), (1.5, 3), (2.0, None)]),
        "BinaryParameter": (bytes, [(b"ab", 5), (b"b", 1), (b"", 9), (b"ab", b"zz"), (b"\x00", 0), (b"abc", None)]),
        "BoolParameter": (bool, [(True, 0), (False, 1), (True, 5), (False, 0), (True, None)]),
    }
    ops = {"lt": operator.lt, "le": operator.le, "gt": operator.gt, "ge": operator.ge, "eq": operator.eq, "ne": operator.ne,
           "add": operator.add, "sorted": lambda a, b: sorted([a, b]), "min": lambda a, b: min(a, b), "max": lambda a, b: max(a, b),
           "sorted3": lambda a, b: sorted([b, a, b]), "contains": lambda a, b: operator.contains(a, b), "mul": operator.mul,
           "sub": operator.sub, "dict": lambda a, b: {a: 1, b: 2}, "set": lambda a, b: len({a, b}), "index": lambda a, b: [a, b].index(b)}
    n = 0
    for cname, (base, pool) in pools.items():
        cls = getattr(common, cname)
        objs = [(cls(v) if r is None else cls(v, r), base(v)) for v, r in pool]
        for (a, ta), (b_, tb) in itertools.product(objs, repeat=2):
            n += 1
            if not ctx.mine(n):
                continue
            for oname, fn in ops.items():
                for left, right, tag in ((a, b_, "both"), (ta, b_, "right-only"), (a, tb, "left-only")):
                    got, want = outcome(lambda: fn(left, right)), outcome(lambda: fn(ta, tb))
                    ctx.count("pair.ops")
                    bad = compare_outcomes(got, want)
                    if bad and cname == "BoolParameter":
                        bad = compare_outcomes(got, outcome(lambda: fn(int(ta), int(tb))))
                    if bad:
                        ctx.violation(f"pair/{cname}/{oname}/{tag}/{bad}", f"{oname}({left!r} [raw {getattr(left, 'raw_value', '-')!r}], {right!r} [raw {getattr(right, 'raw_value', '-')!r}]) "
                                      f"-> {got}, built-ins -> {want}", {"class": cname, "op": oname, "operands": tag, "got": got, "builtin": want})
            ctx.sig("pair", cname, category(plain(ta)), category(plain(tb)))
    ctx.count("evaluations", n // max(1, ctx.nshards))


def harvest_generated(ctx):
    """values of every parameter-type kind and whole packets from real parses of GENERATED documents"""
    from space_packet_parser import common
    from vmon import gen, harness, render
    from vmon.libutil import load_definition, monitored
    kinds = {common.IntParameter: ("int", int), common.FloatParameter: ("float", float), common.StrParameter: ("str", str),
             common.BinaryParameter: ("bytes", bytes), common.BoolParameter: ("bool", bool)}
    seen = set()
    for d in range(ctx.size(192, 3000)):
        if not ctx.mine(d):
            continue
        rng = ctx.rng("gen", d)
        # every second document leans on calibrators (context calibrators that apply / do not apply, with / without default)
        doc = gen.gen_document(rng, gen.Profile(p_context=0.85, p_calibrated=0.7, max_entries=5) if d % 2 else None)
        ld = monitored(load_definition, render.render_doc(doc))
        if ld.exc is not None:
            continue
        info = harness.DocInfo(doc)
        for raw in gen.gen_packets(rng, doc, 8):
            step, pkt = harness.parse_single(ld.value, raw)
            if step.exc is not None:
                continue
            check_packet_copy(ctx, step.value, origin=f"generated:{d}")
            # "the matching built-in type": the type the parameter's definition calls for (reference model), not merely one of the five
            from vmon import ref
            mo = ref.walk(doc, raw)
            if mo.status == "ok":
                want_cls = {"int": common.IntParameter, "float": common.FloatParameter, "str": common.StrParameter,
                            "bytes": common.BinaryParameter, "bool": common.BoolParameter}
                for mname, mv in mo.items:
                    lv = step.value.get(mname)
                    if lv is None or mv.dontcare or mv.cls not in want_cls:
                        continue
                    ctx.count("harvested.class_vs_model")
                    if type(lv) is not want_cls[mv.cls]:
                        ctx.violation(f"harvest/class-vs-definition/{info.feat.get(mname, '?')}/{type(lv).__name__}-not-{mv.cls}",
                                      f"parsed value {mname} is a {type(lv).__name__} ({lv!r}, raw {getattr(lv, 'raw_value', None)!r}); its definition calls for {mv.cls}",
                                      {"doc": d, "parameter": mname, "feature": info.feat.get(mname)})
            for name, val in step.value.items():
                cls = type(val)
                if cls not in kinds:
                    ctx.violation(f"harvest/class/{cls.__name__}", f"parsed value {name} has class {cls.__name__}, not one of the five", {"doc": d})
                    continue
                kind, base = kinds[cls]
                plainv = plain(val) if kind != "bool" else bool(val)
                rv = val.raw_value
                from space_packet_parser import common as _cm
                if type(rv) not in (int, float, str, bytes, bool, _cm.IntParameter, _cm.FloatParameter, _cm.StrParameter, _cm.BinaryParameter, _cm.BoolParameter):
                    # the raw encoded value is a plain built-in (or the value object itself when there is no separate raw value)
                    ctx.violation(f"harvest/raw_value-class/{type(rv).__name__}", f"raw_value of parsed item {name} ({cls.__name__}) is a {type(rv).__name__}: {str(rv)[:80]!r}",
                                  {"item": name, "raw_value_type": type(rv).__name__})
                ctx.count("harvested.raw_value_types")
                key = (cls, category(plainv), category(plain(rv)), info.feat.get(name, "?"))
                if key in seen:
                    continue
                seen.add(key)
                ctx.count("harvested.values")
                has = not (type(plain(rv)) is type(plainv) and same(plain(rv), plainv))
                check_value(ctx, cls, kind, base, plainv, plain(rv) if has else None, has, origin=f"generated:{d}:{info.feat.get(name)}")


def harvest(ctx):
    """values and packets from real parses (mission data + synthetic document with every type kind)."""
    from vmon import core
    import space_packet_parser as spp
    from space_packet_parser import common
    data = os.path.join(core.REPO, "tests", "test_data")
    jobs = [("jpss/jpss1_geolocation_xtce_v1.xml", "jpss/J01_G011_LZ_2021-04-09T00-00-00Z_V01.DAT1", {}),
            ("suda/suda_combined_science_definition.xml", "suda/sciData_2022_130_17_41_53.spl", {"skip_header_bytes": 4}),
            ("ctim/ctim_xtce_v1.xml", "ctim/ccsds_2021_155_14_39_51", {"root_container_name": "CCSDSTelemetryPacket"}),
            ("idex/idex_combined_science_definition.xml", "idex/sciData_2023_052_14_45_05", {})]
    kinds = {common.IntParameter: ("int", int), common.FloatParameter: ("float", float), common.StrParameter: ("str", str),
             common.BinaryParameter: ("bytes", bytes), common.BoolParameter: ("bool", bool)}
    seen = set()
    for ji, (xml, pkt, kw) in enumerate(jobs):
        if not ctx.mine(ji):
            continue
        limit = ctx.size(20, 2000)
        with warnings.catch_warnings():
            warnings.simplefilter("ignore")
            d = spp.load_xml(os.path.join(data, xml))
            with open(os.path.join(data, pkt), "rb") as f:
                gen = d.packet_generator(f, **kw)
                for i, p in enumerate(gen):
                    if i >= limit:
                        break
                    check_packet_copy(ctx, p, origin=xml)
                    for name, val in p.items():
                        cls = type(val)
                        if cls not in kinds:
                            ctx.violation(f"harvest/class/{cls.__name__}", f"parsed value {name} has class {cls.__name__}, not one of the five", {"name": name})
                            continue
                        kind, base = kinds[cls]
                        plainv = plain(val) if kind != "bool" else bool(val)
                        key = (cls, category(plainv), category(plain(val.raw_value)), len(seen) < 400 and name)
                        if key in seen:
                            continue
                        seen.add(key)
                        ctx.count("harvested.values")
                        rv = val.raw_value
                        from space_packet_parser import common as _cm
                        if type(rv) not in (int, float, str, bytes, bool, _cm.IntParameter, _cm.FloatParameter, _cm.StrParameter, _cm.BinaryParameter, _cm.BoolParameter):
                            # the raw encoded value is a plain built-in (or the value object itself when there is no separate raw value)
                            ctx.violation(f"harvest/raw_value-class/{type(rv).__name__}", f"raw_value of parsed item {name} ({cls.__name__}) is a {type(rv).__name__}: {str(rv)[:80]!r}",
                                          {"item": name, "raw_value_type": type(rv).__name__})
                        ctx.count("harvested.raw_value_types")
                        has = not (type(plain(rv)) is type(plainv) and same(plain(rv), plainv))
                        check_value(ctx, cls, kind, base, plainv, plain(rv) if has else None, has, origin=f"{xml}:{name}")
                gen.close()
