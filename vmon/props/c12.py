"""C12 — segmented packets are reassembled per APID exactly once and only when complete.

Monitor shape T with unique ids: every raw packet's data field is  id(4) + zero filler + id(4)  with a unique id, so
every output identifies exactly which raw packets it was built from. Offline checkers over the recorded history:
(1) outputs == the per-APID state machine written from the property statement (sequence of byte strings, in order);
(2) independent of the model: no id occurs in two outputs, every output starts with a whole FIRST/UNSEGMENTED packet;
(3) warnings per next() step == the number the model predicts (orphans, gaps, length mismatch of the joined packet).
Histories over {FIRST, CONTINUATION, LAST, UNSEGMENTED} x 2 APIDs x {in-sequence, gap} are enumerated completely up
to a length bound, with start counters placed so that 16383->0 wrap-around happens inside the bound.
"""
import itertools

from vmon import docs
from vmon.libutil import lib_warnings, load_definition, monitored

LEVEL = "exploration"
SHARDS = {"quick": 16, "thorough": 16}
MUST = ["histories", "directed.unrecognized_between_segments", "outputs.joined", "outputs.single", "model.orphans", "model.gaps", "model.superseded", "wraparound.groups", "with_prefix_bytes", "mixed_header_bits", "many_open_groups", "retransmissions", "option.parse_bad_pkts_false", "outputs.withheld_as_bad"]
RULE = ("history = sequence of (flag, apid, in-sequence|gap) symbols turned into real CCSDS packets with unique ids and "
        "fed to packet_generator(combine_segmented_packets=True, secondary_header_bytes=s) as one byte stream; the "
        "recorded outputs (raw bytes of each yielded packet, warnings per step) are compared with a per-APID state "
        "machine (UNSEGMENTED alone and not touching an open group; FIRST supersedes; LAST closes and clears; gaps "
        "judged modulo 16384 at LAST). Enumerated completely: all histories of length <= 4 over the 16-symbol alphabet "
        "(69,904; thorough: length <= 5, 1,118,480), and with steps {+1,+2,0 (duplicate),-1 (reordered)} up to length 3 (thorough 4), for secondary-header lengths {0,1,4,=data length} rotated, start "
        "counters {16382, 0, 16383}; all histories of length <= 3 again with the segments of one APID differing in version, "
        "type or secondary-header flag (grouping is by APID alone); plus seeded random histories of length 6..60 over 3 APIDs. distinct_nontrivial = "
        "distinct (history shape without ids, secondary header length) signatures that contain at least one "
        "segmented packet; all-UNSEGMENTED histories are trivial and excluded.")
ASSUMPTIONS = ["sequence continuity is judged among the members of a group (as the library does), at the LAST packet",
               "the warning oracle counts library UserWarnings per next() step, it does not read their text"]

FLAGS = {"C": 0, "F": 1, "L": 2, "U": 3}
DATA_LEN = 12


def header_bits(mode, i):
    """(version, type, secondary header flag) of packet number i: the property groups by APID alone, so segments of one
    APID may differ in the other identification bits (only the first segment carrying a secondary header, ...)"""
    if mode == 1:
        return 0, 0, (i + 1) % 2
    if mode == 2:
        return 0, i % 2, 1
    if mode == 3:
        return i % 3, 0, 1
    if mode == 4:
        return (i * 5) % 8, (i // 2) % 2, 1 if i == 0 else 0
    return 0, 0, 1


def make_packets(history, start, apids, hdr_mode=0):
    """history: [(flag, apid_index, gap)] -> list of dict(raw, flag, apid, seq, id)"""
    from space_packet_parser import packets as P
    ctr = {a: start for a in apids}
    out = []
    for i, (flag, ai, gap) in enumerate(history):
        apid = apids[ai]
        # gap: False/True (in sequence / skip one), or an explicit integer step (0 = duplicate count, -1 = reordered, ...)
        step = (2 if gap else 1) if isinstance(gap, bool) else (0 if isinstance(gap, tuple) else gap)
        seq = (ctr[apid] + step) % 16384
        ctr[apid] = seq
        pid = b"\xa5" + (i + 1).to_bytes(2, "big") + b"\x5a"
        if isinstance(gap, tuple) and gap[0] == "resend":
            # a byte-identical retransmission of the packet sent `gap[1]` steps earlier on this APID's history position
            src = out[gap[1]]
            out.append({"raw": src["raw"], "flag": src["flag"], "apid": src["apid"], "seq": src["seq"], "id": src["id"], "i": i, "resend_of": gap[1]})
            continue
        data = pid + bytes(DATA_LEN - 8) + pid
        raw = bytes(P.create_ccsds_packet(data, apid=apid, sequence_flags=FLAGS[flag], sequence_count=seq,
                                          version_number=header_bits(hdr_mode, i)[0], type=header_bits(hdr_mode, i)[1],
                                          secondary_header_flag=header_bits(hdr_mode, i)[2]))
        out.append({"raw": raw, "flag": flag, "apid": apid, "seq": seq, "id": pid, "i": i})
    return out


def model(pkts, sh, ctx=None):
    """per-APID state machine from the property statement. Returns list of steps; each step =
    (expected output bytes, contributor indexes, warnings expected during the step); plus trailing warnings."""
    open_ = {}
    steps = []
    pending_warn = 0

    def out(data, contrib, extra_warn):
        nonlocal pending_warn
        steps.append((data, contrib, pending_warn + extra_warn))
        pending_warn = 0

    for p in pkts:
        a = p["apid"]
        if p["flag"] == "U":
            out(p["raw"], [p["i"]], 0)
            if ctx:
                ctx.count("outputs.single")
        elif p["flag"] == "F":
            if open_.get(a) and ctx:
                ctx.count("model.superseded")
            open_[a] = [p]
        elif not open_.get(a):
            pending_warn += 1          # orphan continuation / last: dropped with a warning
            if ctx:
                ctx.count("model.orphans")
        elif p["flag"] == "C":
            open_[a].append(p)
        else:  # LAST: closes -- and clears -- the group
            grp = open_.pop(a) + [p]
            seqs = [q["seq"] for q in grp]
            if all((b - c) % 16384 == 1 for c, b in zip(seqs, seqs[1:])):
                data = grp[0]["raw"] + b"".join(q["raw"][6 + sh:] for q in grp[1:])
                out(data, [q["i"] for q in grp], 1 if len(data) != len(grp[0]["raw"]) else 0)
                if ctx:
                    ctx.count("outputs.joined")
                    if any(b < c for c, b in zip(seqs, seqs[1:])):
                        ctx.count("wraparound.groups")
            else:
                pending_warn += 1
                if ctx:
                    ctx.count("model.gaps")
    return steps, pending_warn


def shape(history):
    def g_(g):
        return ("g" if g else "") if isinstance(g, bool) else {0: "d", -1: "r"}.get(g, f"j{g}")
    return "".join(f"{f}{a}{g_(g)}" for f, a, g in history)


def run_history(ctx, defn, history, sh, start, apids, sample=False, k=None, hdr_mode=0, pbp=True):
    pkts = make_packets(history, start, apids, hdr_mode)
    if hdr_mode:
        ctx.count("mixed_header_bits")
    steps, trailing = model(pkts, sh, ctx)
    if not pbp:
        # parse_bad_pkts=False on top of segment combining: an output whose parse does not consume it exactly (here: a joined packet
        # that gained bytes beyond the first segment's length field) is withheld; its warnings surface with the next yielded output
        ctx.count("option.parse_bad_pkts_false")
        kept, carry = [], 0
        for data, contrib, w in steps:
            first_len = 7 + int.from_bytes(data[4:6], "big")
            if len(data) != first_len:
                carry += w
                ctx.count("outputs.withheld_as_bad")
            else:
                kept.append((data, contrib, w + carry))
                carry = 0
        steps, trailing = kept, trailing + carry
    if k is None:
        k = (0, 0, 0, 4, 2)[(len(history) * 7 + sh + start) % 5]     # foreign prefix bytes before every raw packet
    if k:
        ctx.count("with_prefix_bytes")
    stream = b"".join(bytes([0xEE]) * k + p["raw"] for p in pkts)
    gen = defn.packet_generator(stream, combine_segmented_packets=True, secondary_header_bytes=sh, skip_header_bytes=k, **({} if pbp else {"parse_bad_pkts": False}))
    got = []
    end = None
    states = set()
    for _ in range(len(pkts) + 2):
        s = monitored(next, gen)
        if isinstance(s.exc, StopIteration):
            end = ("stop", len(lib_warnings(s)))
            break
        if s.exc is not None:
            end = ("exc", s.exc)
            break
        got.append((bytes(s.value.raw_data), len(lib_warnings(s))))
        fr = gen.gi_frame
        if fr is not None:  # evidence only
            sp = fr.f_locals.get("_segmented_packets")
            if isinstance(sp, dict):
                states.add(tuple(sorted((k, len(v)) for k, v in sp.items())))
    gen.close()
    ctx.count("evaluations")
    ctx.count("histories")
    ctx.count("generator_states_seen", len(states))
    seg = any(f != "U" for f, _, _ in history)
    if seg:
        ctx.sig(shape(history) if len(history) <= 5 else shape(history[:5]) + f"+{len(history) - 5}", sh)
    wit = {"history": shape(history), "header_bits_mode": hdr_mode, "parse_bad_pkts": pbp, "secondary_header_bytes": sh, "start_counter": start, "skip_header_bytes": k,
           "seqs": [p["seq"] for p in pkts], "model_outputs": [c for _, c, _ in steps],
           "got_outputs": [ids_in(b, pkts) for b, _ in got]}
    if sample:
        ctx.sample(wit)
    hs = "len<=3" if len(history) <= 3 else "len<=5" if len(history) <= 5 else "long"
    if end is None or end[0] == "exc":
        ctx.violation(f"generator/{'no-stop' if end is None else type(end[1]).__name__}",
                      f"generator did not end normally: {end}", wit)
        return
    exp_bytes = [b for b, _, _ in steps]
    got_bytes = [b for b, _ in got]
    # (2) model-independent: no raw packet id in two outputs
    seen = {}
    has_resend = any("resend_of" in p for p in pkts)     # byte-identical retransmissions carry the same id: identity by id is not defined
    for oi, b in enumerate(got_bytes if not has_resend else []):
        for pid in set(ids_in(b, pkts)):
            if pid in seen:
                ctx.violation(f"reuse/raw-packet-in-two-outputs/{hs}", f"raw packet #{pid} contributes to outputs {seen[pid]} and {oi}", wit)
                break
            seen[pid] = oi
    if got_bytes != exp_bytes:
        gi, mi = [ids_in(b, pkts) for b in got_bytes], [c for _, c, _ in steps]
        if len(got_bytes) > len(exp_bytes):
            kind = "extra-output"
        elif len(got_bytes) < len(exp_bytes):
            kind = "missing-output"
        elif gi == mi:
            kind = "joined-bytes"
        else:
            kind = "wrong-members"
        ctx.violation(f"outputs/{kind}/sh{'0' if sh == 0 else 'N'}/{hs}",
                      f"outputs built from raw packets {gi}, model says {mi} (history {shape(history)}, sh={sh})", wit)
        return
    # (3) warnings per step
    exp_w = [w for _, _, w in steps] + [trailing]
    got_w = [w for _, w in got] + [end[1]]
    if got_w != exp_w:
        less = sum(got_w) < sum(exp_w)
        ctx.violation(f"warnings/{'missing' if less else 'unexpected'}/{hs}", f"warnings per step {got_w}, model {exp_w} (history {shape(history)})", wit)


def ids_in(b, pkts):
    out = []
    for p in pkts:
        if p["id"] in b:
            out.append(p["i"])
    return out


def unrecognized_between_segments(ctx):
    """a definition whose recognition depends on a DATA field: unsegmented packets of the same APID that the definition does not
    recognize (and ones it does) arrive between the FIRST and the LAST of an open group - the group is still completed"""
    from space_packet_parser import exceptions as X
    from space_packet_parser import packets as P
    from vmon import ir, render
    from vmon.props.c05 import header_types
    ts, ps = header_types("PKT_APID")
    ts += [ir.PType("TAG_T", "integer", ir.IntEnc(8, "unsigned"))]
    ps += [ir.Param("TAG", "TAG_T")]
    hdr = tuple(("p", p.name) for p in ps[:7])
    doc = ir.Doc(tuple(ts), tuple(ps), (ir.Container("CCSDSPacket", hdr + (("p", "TAG"),), None, None, True),
                                        ir.Container("K", (), "CCSDSPacket", (ir.Comparison("TAG", "165"),))))
    dfn = load_definition(render.render_doc(doc))
    mk = lambda first, flag, seq, apid=77: bytes(P.create_ccsds_packet(bytes([first]) + bytes([seq % 251]) * 5, apid=apid, sequence_flags=FLAGS[flag], sequence_count=seq))
    for between in (["bad"], ["good"], ["bad", "bad"], ["good", "bad"], ["bad-other-apid"], []):
        for with_cont in (False, True):
            f_, l_ = mk(0xA5, "F", 10), mk(0x33, "L", 12 if with_cont else 11)
            grp = [f_] + ([mk(0x44, "C", 11)] if with_cont else []) + [l_]
            mids = [mk(0x11 if b.startswith("bad") else 0xA5, "U", 900 + j, 78 if b.endswith("other-apid") else 77) for j, b in enumerate(between)]
            stream = grp[0] + b"".join(mids) + b"".join(grp[1:])
            joined = grp[0] + b"".join(g[6:] for g in grp[1:])
            for yu in (False, True):
                want = [("unrecognized", m) if b.startswith("bad") else ("packet", m) for b, m in zip(between, mids) if yu or not b.startswith("bad")] + [("packet", joined)]
                st = monitored(lambda: list(dfn.packet_generator(stream, combine_segmented_packets=True, yield_unrecognized_packet_errors=yu)))
                ctx.count("evaluations")
                ctx.count("directed.unrecognized_between_segments")
                ctx.sig("between-segments", tuple(between), with_cont, yu)
                got = None
                if st.exc is None:
                    got = [("unrecognized", bytes(x.partial_data.raw_data)) if isinstance(x, X.UnrecognizedPacketTypeError) else ("packet", bytes(x.raw_data)) for x in st.value]
                if got != want:
                    ctx.violation(f"between-segments/{'+'.join(between) or 'nothing'}/{'reported' if yu else 'skipped'}",
                                  f"FIRST, {between}, {'CONTINUATION, ' if with_cont else ''}LAST of one APID: outputs {[(k_, len(b_)) for k_, b_ in (got or [])]} / {st.exc!r}, "
                                  f"expected {[(k_, len(b_)) for k_, b_ in want]}", {"between": between, "continuation": with_cont, "yield_unrecognized": yu})


def run(ctx):
    if ctx.shard == 2 % ctx.nshards:
        unrecognized_between_segments(ctx)
    defn = load_definition(docs.header_plus_blob_doc())
    rng = ctx.rng("c12")
    alphabet = [(f, a, g) for f in "FCLU" for a in (0, 1) for g in (False, True)]
    maxlen = ctx.size(4, 5)
    apids2 = (100, 2047)
    shs = [0, 1, 4, DATA_LEN]
    starts = [16382, 0, 16383]
    n = 0
    for L in range(1, maxlen + 1):
        for history in itertools.product(alphabet, repeat=L):
            n += 1
            if not ctx.mine(n):
                continue
            sh = shs[n % 4]
            start = starts[(n // 4) % 3] if L >= 2 else 16382
            run_history(ctx, defn, list(history), sh, start, apids2, sample=(n in (300, 4500)))
    ctx.exhaustive_space(f"all histories of length <= {maxlen} over 16 symbols", n // ctx.nshards)
    # wider step alphabet {in-sequence, skip one, duplicate count, step back}: all histories of length <= 3 (thorough: 4)
    alphabet4 = [(f, a, g) for f in "FCLU" for a in (0, 1) for g in (1, 2, 0, -1)]
    m = 0
    for L in range(1, ctx.size(3, 4) + 1):
        for history in itertools.product(alphabet4, repeat=L):
            m += 1
            if not ctx.mine(m):
                continue
            if all(g in (1, 2) for _, _, g in history):
                continue   # covered by the boolean alphabet above
            run_history(ctx, defn, list(history), shs[m % 4], starts[(m // 4) % 3], apids2, sample=(m == 5000))
    ctx.exhaustive_space(f"all histories of length <= {ctx.size(3, 4)} over 32 symbols (steps +1,+2,0,-1)", m // ctx.nshards)
    # all four secondary-header lengths on every history of length <= 3
    for L in range(1, 4):
        for hi, history in enumerate(itertools.product(alphabet, repeat=L)):
            if ctx.mine(hi):
                for sh in shs:
                    run_history(ctx, defn, list(history), sh, 16383, apids2)
    # segments of one APID differing in version / type / secondary-header flag: all histories of length <= 3, each mode
    for L in range(1, 4):
        for hi, history in enumerate(itertools.product(alphabet, repeat=L)):
            if ctx.mine(hi):
                for mode in (1, 2, 3, 4):
                    run_history(ctx, defn, list(history), shs[(hi + mode) % 4], 16383, apids2, hdr_mode=mode)
    # ---- many APIDs with a group open at the same time (17, 40, 300): every one of them is completed ----------------------------
    for napids in (17, 40, 300):
        if not ctx.mine(napids):
            continue
        aps = tuple(range(5, 5 + napids))
        hist = [("F", a, False) for a in range(napids)] + [("C", a, False) for a in range(0, napids, 2)] + [("L", a, False) for a in reversed(range(napids))]
        run_history(ctx, defn, hist, 4, 16383, aps, k=0)
        ctx.count("many_open_groups")
    # ---- byte-identical retransmissions: a repeated FIRST restarts the group like any FIRST; a repeated CONTINUATION / LAST is
    #      an out-of-sequence member --------------------------------------------------------------------------------------------
    for hi, hist in enumerate(([("F", 0, False), ("C", 0, False), ("F", 0, ("resend", 0)), ("L", 0, False)],
                               [("F", 0, False), ("F", 0, ("resend", 0)), ("L", 0, False)],
                               [("F", 0, False), ("C", 0, False), ("C", 0, ("resend", 1)), ("L", 0, False)],
                               [("F", 1, False), ("C", 1, False), ("L", 1, False), ("L", 1, ("resend", 2)), ("F", 1, ("resend", 0)), ("C", 1, ("resend", 1)), ("L", 1, ("resend", 2))],
                               [("U", 0, False), ("U", 0, ("resend", 0)), ("F", 0, False), ("U", 0, ("resend", 0)), ("L", 0, False)])):
        if not ctx.mine(hi):
            continue
        for sh in (0, 4):
            run_history(ctx, defn, hist, sh, 20, apids2, k=0)
            ctx.count("retransmissions")
    # ---- random long histories over 3 APIDs -------------------------------------------------------------
    apids3 = (0, 7, 1024)
    for i in range(ctx.size(4000, 600_000) // ctx.nshards):
        L = rng.randrange(6, 61)
        hist = []
        for _ in range(L):
            f = rng.choices("FCLU", weights=(3, 4, 3, 2))[0]
            hist.append((f, rng.randrange(3), rng.choice([False] * 8 + [True, 0, -1, 3])))
        run_history(ctx, defn, hist, rng.choice(shs + [2, 8]), rng.choice(starts + [rng.randrange(16384)]), apids3,
                    sample=(i == 0), hdr_mode=rng.choice((0, 0, 1, 2, 3, 4)), pbp=rng.random() < 0.7)
    # every history of length <= 3 with the bad-packet filter on
    for L in range(1, 4):
        for hi, history in enumerate(itertools.product(alphabet, repeat=L)):
            if ctx.mine(hi):
                run_history(ctx, defn, list(history), shs[hi % 4], 16383, apids2, pbp=False)
