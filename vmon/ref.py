"""Reference semantics over the IR (vmon.ir) — an independent, deliberately naive XTCE/CCSDS decoder.

Shares no code with the library: bits are '0'/'1' strings (vmon.bits), calibrators are evaluated in exact rationals,
criteria on plain built-ins with the operator module. Where the standard/documentation leaves a case undefined the
model says so explicitly (ModelError = "an error is expected", DontCare = "not compared") instead of guessing.
"""
import math
import operator
from dataclasses import dataclass
from fractions import Fraction

from vmon import bits, ir

REL = {"eq": operator.eq, "ne": operator.ne, "lt": operator.lt, "gt": operator.gt, "le": operator.le, "ge": operator.ge}

PY_CODEC = {"US-ASCII": "ascii", "ISO-8859-1": "latin-1", "Windows-1252": "cp1252", "UTF-8": "utf-8",
            "UTF-16LE": "utf-16-le", "UTF-16BE": "utf-16-be", "UTF-32LE": "utf-32-le", "UTF-32BE": "utf-32-be"}
CODE_UNIT = {"US-ASCII": 1, "ISO-8859-1": 1, "Windows-1252": 1, "UTF-8": 1, "UTF-16LE": 2, "UTF-16BE": 2,
             "UTF-32LE": 4, "UTF-32BE": 4, "UTF-16": 2, "UTF-32": 4}


class ModelError(Exception):
    """The semantics assign no value here: the library is expected to fail (any exception)."""

    def __init__(self, kind, detail=""):
        super().__init__(f"{kind}: {detail}")
        self.kind = kind


class DontCare(Exception):
    """Outside what the standard / documentation pins down; not compared."""


@dataclass
class Val:
    value: object            # plain built-in
    raw: object              # plain built-in
    cls: str                 # int | float | str | bytes | bool
    exact: object = None     # Fraction when value came out of a calibrator
    scale: object = None     # sum |terms| for the tolerance
    dontcare: bool = False   # value not pinned down (e.g. non-finite raw through a calibrator)


# ---------------------------------------------------------------------------------------------------------------
# criteria
# ---------------------------------------------------------------------------------------------------------------
def coerce(literal: str, operand):
    """literal interpreted in the type of the value it is compared to"""
    try:
        if isinstance(operand, bool):
            return int(literal)
        if isinstance(operand, int):
            return int(literal)
        if isinstance(operand, float):
            return float(literal)
        if isinstance(operand, str):
            return str(literal)
    except (ValueError, TypeError) as e:
        raise ModelError("literal-not-coercible", f"{literal!r} as {type(operand).__name__}") from e
    raise ModelError("operand-type", type(operand).__name__)


def relate(op, a, b):
    rel = ir.OPS.get(op)
    if rel is None:
        raise ModelError("bad-operator", op)
    num = (int, float)
    if isinstance(a, num) != isinstance(b, num):
        # a number against a string: no mathematical relation is defined (not judged, for any operator)
        raise ModelError("incomparable-kinds", f"{type(a).__name__} {op} {type(b).__name__}")
    if isinstance(a, float) and a != a or isinstance(b, float) and b != b:
        return rel == "ne"
    return bool(REL[rel](a, b))


def operand_of(env, name, calibrated, current_raw=None):
    if name in env:
        v = env[name]
        x = v.value if calibrated else v.raw
        if (v.dontcare and calibrated) or x is None:
            raise DontCare()
        return x
    if current_raw is not None:
        return current_raw
    raise ModelError("reference-not-decoded", name)


def eval_comparison(c: ir.Comparison, env, current_raw=None):
    x = operand_of(env, c.ref, c.calibrated, current_raw)
    if isinstance(x, bytes):
        raise ModelError("bytes-operand", c.ref)
    return relate(c.op, x, coerce(c.value, x))


def eval_condition(c: ir.Condition, env):
    a = operand_of(env, c.left, c.left_cal)
    if c.right_param is not None:
        b_ = operand_of(env, c.right_param, c.right_cal)
    else:
        if isinstance(a, bytes):
            raise ModelError("bytes-operand", c.left)
        b_ = coerce(c.right_value, a)
    if isinstance(a, bytes) or isinstance(b_, bytes):
        if type(a) is not type(b_):
            raise ModelError("bytes-vs-other", "")
    return relate(c.op, a, b_)


def eval_bool(x, env):
    if isinstance(x, ir.Condition):
        return eval_condition(x, env)
    if isinstance(x, ir.And):
        return all([eval_bool(i, env) for i in x.items])   # list: no short-circuit, every leaf must be defined
    if isinstance(x, ir.Or):
        return any([eval_bool(i, env) for i in x.items])
    raise TypeError(x)


def eval_criteria(crit, env, current_raw=None):
    """criteria (tuple of Comparison = conjunction, or BoolExpr, or None = always) -> bool"""
    if crit is None:
        return True
    if isinstance(crit, ir.BoolExpr):
        return eval_bool(crit.expr, env)
    # a conjunction is false as soon as one comparison is false: comparisons after it are not looked at (so a later
    # comparison that refers to a parameter this packet does not carry cannot turn "false" into an error)
    for c in crit:
        if not eval_comparison(c, env, current_raw):
            return False
    return True


def eval_lookup(lk: ir.Lookup, env):
    for crit, value in lk.entries:
        if eval_criteria(tuple(crit), env):
            return value
    raise ModelError("lookup-no-match", "")


# ---------------------------------------------------------------------------------------------------------------
# calibrators (exact)
# ---------------------------------------------------------------------------------------------------------------
HUGE = Fraction(10) ** 300
TINY = Fraction(1, 10 ** 300)


class CalibrationExpected(ModelError):
    """out of range without extrapolation: a CalibrationError is expected"""


def calibrate(cal, x):
    """-> (Fraction exact, Fraction scale). x finite int/float."""
    if isinstance(x, float) and (x != x or x in (math.inf, -math.inf)):
        raise DontCare()
    q = Fraction(x)
    if isinstance(cal, ir.Poly):
        total, scale = Fraction(0), Fraction(0)
        for c, e in cal.terms:
            if e < 0 and q == 0:
                raise ModelError("zero-to-negative-power", "")
            power = q ** e
            t = Fraction(c) * power
            if abs(power) > HUGE or abs(t) > HUGE or (power != 0 and abs(power) < TINY):
                # beyond (or below) what a double can hold: float arithmetic overflows/underflows, nothing is pinned down
                raise DontCare()
            total += t
            scale += abs(t)
        return total, scale
    pts = [(Fraction(r), Fraction(c)) for r, c in cal.points]
    xs = [p[0] for p in pts]
    ys = [p[1] for p in pts]
    scale = max(abs(y) for y in ys) + 1
    if q < xs[0] or q > xs[-1]:
        if not cal.extrapolate:
            raise CalibrationExpected("outside-spline-range", f"{x}")
        if cal.order == 0:
            return (ys[-1] if q > xs[-1] else ys[0]), scale
        if len(pts) < 2:
            raise ModelError("single-point-linear", "")
        (x0, y0), (x1, y1) = (pts[-2], pts[-1]) if q > xs[-1] else (pts[0], pts[1])
        v = y0 + (y1 - y0) / (x1 - x0) * (q - x0)
        return v, max(scale, abs(v))
    # inside the closed range
    i = max(k for k in range(len(xs)) if xs[k] <= q)
    if cal.order == 0:
        return ys[i], scale
    if i == len(xs) - 1:
        return ys[i], scale
    v = ys[i] + (ys[i + 1] - ys[i]) / (xs[i + 1] - xs[i]) * (q - xs[i])
    return v, scale


def close_enough(lib_value, exact, scale):
    if not isinstance(lib_value, float):
        return False
    if lib_value != lib_value or lib_value in (math.inf, -math.inf):
        return False
    tol = Fraction(1, 10 ** 9) * max(Fraction(1), scale)
    return abs(Fraction(lib_value) - exact) <= tol


# ---------------------------------------------------------------------------------------------------------------
# field decoding
# ---------------------------------------------------------------------------------------------------------------
class OverRead(Exception):
    """the field extends past the end of the packet (C14: must not come out clean)"""

    def __init__(self, pos, n):
        super().__init__(f"field of {n} bits at {pos}")
        self.pos, self.n = pos, n


class NegativeLength(Exception):
    def __init__(self, n):
        super().__init__(str(n))
        self.n = n


def take(allbits, pos, n):
    if n < 0:
        raise NegativeLength(n)
    if pos + n > len(allbits):
        raise OverRead(pos, n)
    return allbits[pos:pos + n]


def numeric_raw(enc, fb):
    if isinstance(enc, ir.IntEnc):
        if enc.little and enc.bits % 8:
            raise DontCare()
        return bits.int_field(fb, enc.encoding, enc.little)
    if enc.encoding in ("MILSTD_1750A", "MIL-1750A"):
        return bits.mil1750a(fb, enc.little)
    return bits.float_field(fb, enc.little)


def numeric_value(enc, raw, env, extra_default=None):
    """context calibrators (first whose criteria hold) > default calibrator > raw itself"""
    for cc in enc.context_cals:
        if eval_criteria(cc.criteria, env, current_raw=raw):
            try:
                ex, sc = calibrate(cc.cal, raw)
            except DontCare:
                return Val(None, raw, "float", dontcare=True)
            return Val(float(ex) if abs(ex) < Fraction(10) ** 300 else None, raw, "float", ex, sc)
    dc = extra_default if extra_default is not None else enc.default_cal
    if dc is not None:
        try:
            ex, sc = calibrate(dc, raw)
        except DontCare:
            return Val(None, raw, "float", dontcare=True)
        return Val(float(ex) if abs(ex) < Fraction(10) ** 300 else None, raw, "float", ex, sc)
    return Val(raw, raw, "int" if isinstance(raw, int) else "float")


def length_of(spec, env):
    """bits of a string/binary field"""
    if isinstance(spec, int):
        return spec
    if isinstance(spec, ir.Lookup):
        v = eval_lookup(spec, env)
    else:
        v = operand_of(env, spec.ref, spec.calibrated)
        if isinstance(v, (str, bytes)):
            raise ModelError("non-numeric-length-reference", spec.ref)
        if spec.slope is not None or spec.intercept is not None:
            v = Fraction(v) * (spec.slope or 0) + (spec.intercept or 0)
    if isinstance(v, float) and (v != v or v in (math.inf, -math.inf)):
        raise ModelError("non-finite-length", "")
    f = Fraction(v)
    if f.denominator != 1:
        raise ModelError("non-integral-length", str(v))
    return int(f)


def decode_text(raw: bytes, charset, byte_order=None):
    codec = PY_CODEC.get(charset)
    if codec is None and charset in ("UTF-16", "UTF-32") and byte_order in (ir.MSB, ir.LSB):
        # generic multi-byte charset: the declared byte order says how the code units are stored
        codec = charset.lower() + ("-be" if byte_order == ir.MSB else "-le")
    if codec is None:
        raise DontCare()
    try:
        return raw.decode(codec)
    except UnicodeDecodeError as e:
        raise ModelError("undecodable", str(e)) from e


def codec_of(charset, byte_order=None):
    codec = PY_CODEC.get(charset)
    if codec is None and charset in ("UTF-16", "UTF-32") and byte_order in (ir.MSB, ir.LSB):
        codec = charset.lower() + ("-be" if byte_order == ir.MSB else "-le")
    return codec


def encode_text(text, charset, byte_order=None):
    codec = codec_of(charset, byte_order)
    if codec is None:
        raise DontCare()
    return text.encode(codec)


def string_value(enc: ir.StrEnc, fb: str):
    """fb = the L bits of the buffer. -> (text, raw buffer bytes)"""
    L = len(fb)
    raw = bits.bits_to_bytes_right_padded(fb)
    if enc.leading_size is not None:
        ls = enc.leading_size
        if ls > L:
            raise DontCare()
        n = bits.u(fb[:ls])
        if n % 8:
            raise ModelError("string-length-not-multiple-of-8", str(n))
        if ls + n > L:
            raise DontCare()    # text would run into the padding / past the buffer: not pinned down
        return decode_text(bits.bits_to_bytes_left_padded(fb[ls:ls + n]) if n else b"", enc.charset, enc.byte_order), raw
    if enc.termination is not None:
        term = bytes.fromhex(enc.termination)
        unit = CODE_UNIT.get(enc.charset, 1)
        idx = -1
        for i in range(0, len(raw) - len(term) + 1, unit):
            if raw[i:i + len(term)] == term:
                idx = i
                break
        if idx < 0:
            raise ModelError("terminator-absent", "")
        if L % 8 and idx + len(term) > L // 8:
            raise DontCare()    # the match involves padding bits
        return decode_text(raw[:idx], enc.charset, enc.byte_order), raw
    return decode_text(raw, enc.charset, enc.byte_order), raw


def decode_param(t: ir.PType, allbits: str, pos: int, env):
    """-> (Val, new position). Raises ModelError / OverRead / NegativeLength / DontCare."""
    enc = t.enc
    if isinstance(enc, (ir.IntEnc, ir.FloatEnc)):
        fb = take(allbits, pos, enc.bits)
        raw = numeric_raw(enc, fb)
        newpos = pos + enc.bits
        if t.kind in ("integer", "float"):
            return numeric_value(enc, raw, env), newpos
        if t.kind in ("abstime", "reltime"):
            extra = None
            if t.scale is not None or t.offset is not None:
                terms = []
                if t.offset is not None:
                    terms.append((float(t.offset), 0))
                terms.append((float(t.scale) if t.scale is not None else 1.0, 1))
                extra = ir.Poly(tuple(terms))
            return numeric_value(enc, raw, env, extra_default=extra), newpos
        if t.kind == "boolean":
            return Val(bool(raw), raw, "bool"), newpos
        if t.kind == "enumerated":
            for v, lab in t.enumeration:
                if v == raw and not isinstance(v, bytes):
                    return Val(lab, raw, "str"), newpos
            raise ModelError("unlisted-enumeration-value", repr(raw))
        raise DontCare()
    if isinstance(enc, ir.BinEnc):
        n = length_of(enc.length, env)
        fb = take(allbits, pos, n)
        v = bits.bits_to_bytes_left_padded(fb)
        if t.kind == "binary":
            return Val(v, v, "bytes"), pos + n
        if t.kind == "boolean":
            return Val(bool(v), v, "bool"), pos + n
        raise DontCare()
    if isinstance(enc, ir.StrEnc):
        n = length_of(enc.length, env)
        fb = take(allbits, pos, n)
        if t.kind == "string":
            text, raw = string_value(enc, fb)
            return Val(text, raw, "str"), pos + n
        if t.kind == "boolean":
            # "the truthiness of the raw value": the raw value of a string-encoded parameter is its whole buffer
            _text, raw = string_value(enc, fb)          # an undecodable / unterminated buffer is still an error
            return Val(bool(raw), raw, "bool"), pos + n
        if t.kind == "enumerated":
            # string-encoded enumeration: the lookup key is the whole raw buffer; the document lists the TEXT, which
            # stands for its encoding in the declared character set (and byte order)
            raw = bits.bits_to_bytes_right_padded(fb)
            for v, lab in t.enumeration:
                if isinstance(v, str) and encode_text(v, enc.charset, enc.byte_order) == raw:
                    return Val(lab, raw, "str"), pos + n
            raise ModelError("unlisted-enumeration-value", repr(raw))
        raise DontCare()
    raise TypeError(enc)


# ---------------------------------------------------------------------------------------------------------------
# container walk (C05) and packet outcome
# ---------------------------------------------------------------------------------------------------------------
@dataclass
class Outcome:
    items: list                 # [(name, Val)] in order
    status: str                 # ok | unrecognized | error | dontcare
    detail: str = ""
    consumption: str = "exact"  # exact | under | over | negative
    pos: int = 0
    path: tuple = ()            # container names visited (inheritance path)
    error_at: str = ""          # field / container where the error is expected
    unrec_kind: str = ""        # abstract-dead-end | ambiguous


def walk(doc: ir.Doc, raw: bytes, root=None) -> Outcome:
    allbits = bits.bitstr(raw)
    tm, pm, cm = doc.type_map(), doc.param_map(), doc.container_map()
    children = {}
    for c in doc.containers:
        if c.base is not None:
            children.setdefault(c.base, []).append(c)
    env, items, pos = {}, [], 0
    path = []
    out = Outcome(items, "ok")

    def parse_container(c):
        nonlocal pos
        for kind, name in c.entries:
            if kind == "p":
                p = pm[name]
                out.error_at = name
                v, pos = decode_param(tm[p.type], allbits, pos, env)
                env[name] = v
                items.append((name, v))
            else:
                parse_container(cm[name])

    cur = cm[root or doc.root]
    try:
        while True:
            path.append(cur.name)
            parse_container(cur)
            out.error_at = "criteria-of-children-of:" + cur.name
            valid = [k for k in children.get(cur.name, []) if eval_criteria(k.criteria, env)]
            if len(valid) == 1:
                cur = valid[0]
                continue
            if len(valid) == 0:
                if cur.abstract:
                    out.status, out.unrec_kind = "unrecognized", "abstract-dead-end"
                break
            out.status, out.unrec_kind = "unrecognized", "ambiguous"
            break
    except ModelError as e:
        out.status, out.detail = "error", e.kind
    except OverRead as e:
        out.status, out.detail, out.consumption = "error", "over-read", "over"
    except NegativeLength as e:
        out.status, out.detail, out.consumption = "error", "negative-length", "negative"
    except DontCare:
        out.status = "dontcare"
    out.pos = pos
    out.path = tuple(path)
    if out.status in ("ok", "unrecognized") and out.consumption == "exact":
        out.consumption = "exact" if pos == len(allbits) else "under"
    return out
