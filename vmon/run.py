"""Orchestrator: ./check <ID> <quick|thorough> | ./check <ID> --replay <file>

Shards the property's workload over worker subprocesses (never multiprocessing.Pool: a child killed by the
allocation guard or a watchdog must not hang the run), merges what the monitors observed, classifies
violations against known_findings.json, writes evidence/<ID>.json (schema-validated), prints verdict lines.

Exit codes: 0 held on everything observed (KNOWN-FINDING lines allowed) · 1 VIOLATION · 2 INCONCLUSIVE.
"""
import importlib
import json
import os
import re
import shutil
import subprocess
import sys
import tempfile
import time
from collections import Counter
from concurrent.futures import ThreadPoolExecutor

from vmon import core

V = core.VERIF_DIR
PROPS = [f"C{i:02d}" for i in range(1, 21)]


def load_known():
    path = os.path.join(V, "known_findings.json")
    if not os.path.exists(path):
        return []
    with open(path) as f:
        return json.load(f).get("findings", [])


def finding_matches(finding, prop, key):
    if finding.get("status") != "open":
        return False  # fixed entries suppress nothing
    if prop not in finding.get("properties", []):
        return False
    pat = finding["key"]
    if pat.endswith("*"):
        return key.startswith(pat[:-1])
    return key == pat


def run_shards(prop, tier, seed, nshards, jobs, only_shard=None):
    scratch = tempfile.mkdtemp(prefix=f"vmon-{prop}-", dir=os.environ.get("VERIF_SCRATCH") or None)
    timeout = 1800 if tier == "quick" else 7 * 3600
    results, failures = [], []

    def one(shard):
        out = os.path.join(scratch, f"shard{shard}.json")
        log = os.path.join(scratch, f"shard{shard}.log")
        cmd = [sys.executable, "-X", "faulthandler", "-m", "vmon.worker",
               prop, tier, str(seed), str(shard), str(nshards), out]
        env = dict(os.environ)
        env["VMON_SCRATCH"] = scratch
        try:
            with open(log, "w") as lf:
                p = subprocess.run(cmd, stdout=lf, stderr=subprocess.STDOUT, timeout=timeout, env=env, cwd=V)
            rc = p.returncode
        except subprocess.TimeoutExpired:
            rc = "timeout"
        res = None
        if os.path.exists(out):
            with open(out) as f:
                res = json.load(f)
        tail = ""
        if os.path.exists(log):
            with open(log, errors="replace") as lf:
                tail = lf.read()[-3000:]
        return shard, rc, res, tail

    shards = [only_shard] if only_shard is not None else list(range(nshards))
    with ThreadPoolExecutor(max_workers=max(1, jobs)) as ex:
        for shard, rc, res, tail in ex.map(one, shards):
            if res is None:
                failures.append(f"shard {shard}: no result (rc={rc}) {tail[-1500:]}")
            else:
                if res.get("error"):
                    failures.append(f"shard {shard}: harness error: {res['error'][-1500:]}")
                elif rc != 0:
                    failures.append(f"shard {shard}: rc={rc} {tail[-1500:]}")
                results.append(res)
    shutil.rmtree(scratch, ignore_errors=True)
    return results, failures


def merge(results):
    m = {"counters": Counter(), "distinct": set(), "samples": [], "violations": {}, "exhaustive": Counter(),
         "notes": [], "reach": set(), "wall_shards": 0.0}
    for r in results:
        m["counters"].update(r["counters"])
        m["distinct"].update(r["distinct"])
        for s in r["samples"]:
            if len(m["samples"]) < 8:
                m["samples"].append(s)
        for k, v in r["violations"].items():
            t = m["violations"].setdefault(k, {"count": 0, "witnesses": [], "msg": v["msg"]})
            t["count"] += v["count"]
            for w in v["witnesses"]:
                if len(t["witnesses"]) < core.MAX_WITNESS_PER_KEY:
                    t["witnesses"].append(w)
        m["exhaustive"].update(r["exhaustive"])
        m["notes"].extend(r["notes"][:5])
        m["reach"].update(r["reach"])
        m["wall_shards"] += r["wall_s"]
    return m


def main(argv):
    if len(argv) < 2 or argv[0] not in PROPS:
        print(__doc__)
        return 2
    prop = argv[0]
    t0 = time.time()
    seed = int(os.environ.get("VERIF_SEED", "0") or 0)
    jobs = int(os.environ.get("VERIF_JOBS", "16") or 16)
    replay = None
    if argv[1] == "--replay":
        with open(argv[2]) as f:
            replay = json.load(f)
        tier, seed = replay["tier"], replay["seed"]
    else:
        tier = argv[1]
        if os.environ.get("VERIF_TIER") in ("quick", "thorough"):
            tier = os.environ["VERIF_TIER"]
    if tier not in ("quick", "thorough"):
        print(__doc__)
        return 2

    try:
        mod = importlib.import_module(f"vmon.props.{prop.lower()}")
    except Exception as e:  # noqa: BLE001
        print(f"INCONCLUSIVE property={prop} reason=cannot-import-check-module {type(e).__name__}: {e}")
        return 2
    nshards = mod.SHARDS[tier] if replay is None else replay["nshards"]
    only = None if replay is None else replay["shard"]
    results, failures = run_shards(prop, tier, seed, nshards, jobs, only_shard=only)
    m = merge(results)

    # ---- classify violations -------------------------------------------------------------------
    known = load_known()
    new, hit = {}, Counter()
    for key, v in m["violations"].items():
        matched = [f for f in known if finding_matches(f, prop, key)]
        if matched:
            hit[matched[0]["key"]] += v["count"]
        else:
            new[key] = v
    if replay is not None:
        want = replay["key"]
        again = want in m["violations"]
        print(f"replay: key {want!r} {'REPRODUCED' if again else 'not reproduced'} "
              f"(shard {only}/{nshards}, seed {seed}, tier {tier})")
        if again:
            print(json.dumps(m["violations"][want]["witnesses"][:1], indent=1)[:4000])
            print(f"VIOLATION property={prop} replay={argv[2]}")
        return 1 if again else 0

    for f in known:
        if f.get("status") == "open" and prop in f.get("properties", []):
            print(f"KNOWN-FINDING: property={prop} {f['what']} [key={f['key']} observed={hit.get(f['key'], 0)}]")

    OUT = os.environ.get("VERIF_OUT") or V   # mutant/self-test runs write their evidence elsewhere
    os.makedirs(os.path.join(OUT, "replays"), exist_ok=True)
    for key, v in sorted(new.items()):
        w0 = v["witnesses"][0] if v["witnesses"] else {"shard": 0, "nshards": nshards}
        rp = os.path.join(OUT, "replays", f"{prop}-{re.sub(r'[^A-Za-z0-9_.-]+', '_', key)[:120]}.json")
        with open(rp, "w") as fh:
            json.dump({"property": prop, "key": key, "tier": tier, "seed": seed, "shard": w0.get("shard", 0),
                       "nshards": w0.get("nshards", nshards), "count": v["count"], "msg": v["msg"],
                       "witnesses": v["witnesses"]}, fh, indent=1)
        print(f"VIOLATION property={prop} replay={rp}")
        print(f"  key={key} count={v['count']} :: {v['msg'][:600]}")

    # ---- inconclusive? -------------------------------------------------------------------------
    inconclusive = list(failures)
    for name in getattr(mod, "MUST", []):
        if m["counters"].get(name, 0) <= 0:
            inconclusive.append(f"must-reach counter {name} is 0 (the deciding monitor never ran)")
    evaluations = int(m["counters"].get("evaluations", 0))
    if evaluations <= 0:
        inconclusive.append("no evaluations recorded")

    # ---- evidence ------------------------------------------------------------------------------
    level = mod.LEVEL
    cov = {
        "evaluations": evaluations,
        "distinct_nontrivial": len(m["distinct"]),
        "rule": mod.RULE,
        "samples": m["samples"] or [{"note": "no sample recorded"}],
        "monitors": {k: int(v) for k, v in sorted(m["counters"].items())},
        "exhaustive_subspaces": {k: int(v) for k, v in sorted(m["exhaustive"].items())},
        "exhaustive": False,
        "reach_repo_functions": sorted(m["reach"]),
        "known_findings_hit": dict(hit),
        "new_violation_keys": sorted(new),
        "inconclusive_reasons": inconclusive,
        "shards": nshards,
        "cpu_s": round(m["wall_shards"], 2),
        "notes": m["notes"][:20],
        "repo": core.REPO,
    }
    ev = {
        "property_id": prop, "tier": tier, "seed": seed, "level": level, "coverage": cov,
        "assumptions": list(getattr(mod, "ASSUMPTIONS", [])),
        "wall_s": round(time.time() - t0, 2),
        "violations": len(new),
    }
    os.makedirs(os.path.join(OUT, "evidence"), exist_ok=True)
    evp = os.path.join(OUT, "evidence", f"{prop}.json")
    try:
        import jsonschema
        with open("/root/.vp/EVIDENCE.schema.json") as f:
            schema = json.load(f)
        jsonschema.validate(ev, schema)
    except FileNotFoundError:
        pass
    except Exception as e:  # noqa: BLE001
        inconclusive.append(f"evidence does not validate: {str(e)[:300]}")
    with open(evp, "w") as f:
        json.dump(ev, f, indent=1, sort_keys=True)

    print(f"{prop} {tier} seed={seed}: evaluations={evaluations} distinct_nontrivial={len(m['distinct'])} "
          f"violations={len(new)} known_hits={sum(hit.values())} wall={ev['wall_s']}s cpu={cov['cpu_s']}s")
    if new:
        return 1
    if inconclusive:
        for r in inconclusive:
            print(f"INCONCLUSIVE property={prop} reason={r[:1500]}")
        return 2
    return 0


if __name__ == "__main__":
    sys.exit(main(sys.argv[1:]))
