"""Synthetic packets: a CCSDSPacket dict pre-filled with already-"decoded" parameters plus raw bits to decode next."""
from vmon import bits, ref


def mkparam(kind, value, raw):
    from space_packet_parser import common
    cls = {"int": common.IntParameter, "float": common.FloatParameter, "str": common.StrParameter,
           "bool": common.BoolParameter, "bytes": common.BinaryParameter}[kind]
    return cls(value, raw)


def packet_of(assign, fieldbits="", offset=0, rng=None, tail_bits=0):
    """assign: name -> (kind, value, raw). The raw data holds `offset` junk bits, the field bits, then tail junk,
    padded to whole bytes. Returns (library packet with cursor at `offset`, model env, all bits as str)."""
    from space_packet_parser import packets
    junk = (lambda n: "".join(rng.choice("01") for _ in range(n))) if rng else (lambda n: "0" * n)
    allbits = junk(offset) + fieldbits + junk(tail_bits)
    allbits += junk((-len(allbits)) % 8)
    raw = bytes(int(allbits[i:i + 8], 2) for i in range(0, len(allbits), 8))
    pkt = packets.CCSDSPacket(raw_data=raw)
    pkt.raw_data.pos = offset
    env = {}
    for name, (kind, value, raw_v) in assign.items():
        pkt[name] = mkparam(kind, value, raw_v)
        env[name] = ref.Val(value, raw_v, kind)
    return pkt, env, allbits


def kind_of(x):
    return "bool" if isinstance(x, bool) else type(x).__name__


CLASS_OF = {"int": "IntParameter", "float": "FloatParameter", "str": "StrParameter", "bytes": "BinaryParameter",
            "bool": "BoolParameter"}
BASE_OF = {"int": int, "float": float, "str": str, "bytes": bytes, "bool": int}


def compare_value(got, exp: "ref.Val"):
    """Compare a library value with the model's Val. Returns None if equal, else a short reason string."""
    if exp.dontcare:
        return None if type(got).__name__ == CLASS_OF[exp.cls] else f"class {type(got).__name__} != {CLASS_OF[exp.cls]}"
    if type(got).__name__ != CLASS_OF[exp.cls]:
        return f"class {type(got).__name__} != {CLASS_OF[exp.cls]}"
    if exp.exact is not None:
        if not ref.close_enough(float(got), exp.exact, exp.scale):
            return f"value {float(got)!r} != calibrated {float(exp.exact)!r}"
    elif exp.cls == "float":
        if not bits.same_float(got, exp.value):
            return f"value {float(got)!r} != {exp.value!r}"
    elif exp.cls == "bool":
        if bool(got) != exp.value:
            return f"value {bool(got)} != {exp.value}"
    else:
        if BASE_OF[exp.cls](got) != exp.value:
            return f"value {BASE_OF[exp.cls](got)!r} != {exp.value!r}"
    rv = getattr(got, "raw_value", "<missing>")
    if isinstance(exp.raw, float):
        if not isinstance(rv, float) or not bits.same_float(rv, exp.raw):
            return f"raw_value {rv!r} != {exp.raw!r}"
    elif type(rv) is not type(exp.raw) and not (isinstance(exp.raw, (int, str, bytes)) and isinstance(rv, type(exp.raw))):
        return f"raw_value type {type(rv).__name__} != {type(exp.raw).__name__}"
    elif rv != exp.raw:
        return f"raw_value {rv!r} != {exp.raw!r}"
    return None
