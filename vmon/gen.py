"""Seeded generators over the IR: documents (container trees with every supported feature) and steered packets.

Constraints that keep the semantics well-defined are enforced by construction (see DESIGN.md section 6):
no parameter twice on one path; references only to parameters decoded earlier on every path; literals coercible
to the operand's type; unique enumeration values; little-endian integers only at whole-byte widths; integral
computed lengths; strictly increasing spline raws.
"""
import struct
from dataclasses import dataclass, field

from vmon import bits, ir, ref

HEADER = [("VERSION", 3), ("TYPE", 1), ("SEC_HDR_FLG", 1), ("PKT_APID", 11), ("SEQ_FLGS", 2), ("SRC_SEQ_CTR", 14),
          ("PKT_LEN", 16)]
SINGLE_BYTE = ["US-ASCII", "ISO-8859-1", "Windows-1252", "UTF-8"]
MULTI_BYTE = ["UTF-16LE", "UTF-16BE", "UTF-32LE", "UTF-32BE"]
WORDS = ["volt", "temp", "mode", "A&B", "x<y", 'say "hi"', "μ-unit", "count", "flag", "détecteur", "  spaced  ", "line\nbreak"]


@dataclass
class Profile:
    max_depth: int = 3
    max_fanout: int = 3
    max_entries: int = 4
    p_nested: float = 0.25
    p_abstract: float = 0.4
    p_dynamic: float = 0.35
    p_calibrated: float = 0.35
    p_context: float = 0.3
    p_boolexpr: float = 0.3
    p_descriptions: float = 0.4
    p_little: float = 0.2
    p_unaligned: float = 0.6
    kinds: tuple = ("integer", "float", "enumerated", "boolean", "string", "binary", "abstime", "reltime")
    header_apid_name: str = "PKT_APID"
    negative_lengths: bool = False
    p_root_criteria_on_header: float = 0.7
    flat: bool = False           # C18: one concrete container per APID, no polymorphism
    wide_ints: bool = True
    multi_byte_strings: bool = True
    legacy_float_spellings: bool = False   # 'IEEE-754' / 'MIL-1750A' (tolerated with a warning at load)


@dataclass
class Ctxt:
    """what may be referenced at a point of a path"""
    avail: list = field(default_factory=list)     # list of ir.PType-bearing (name, PType)

    def extended(self, more):
        return Ctxt(self.avail + list(more))


def integral_poly(cal):
    return isinstance(cal, ir.Poly) and all(float(c).is_integer() and abs(c) < 2 ** 20 and e in (0, 1) for c, e in cal.terms)


class DocGen:
    def __init__(self, rng, profile=None):
        self.rng = rng
        self.p = profile or Profile()
        self.types = []
        self.params = []
        self.containers = []
        self.n = 0

    # ---- naming ---------------------------------------------------------------------------------------------
    def fresh(self, stem):
        self.n += 1
        return f"{stem}{self.n}"

    def text(self):
        r = self.rng
        if r.random() > self.p.p_descriptions:
            return None
        return " ".join(r.choice(WORDS) for _ in range(r.randrange(1, 4)))

    # ---- reference candidates ----------------------------------------------------------------------------------
    @staticmethod
    def small_uint(t: ir.PType):
        return t.kind == "integer" and isinstance(t.enc, ir.IntEnc) and t.enc.encoding == "unsigned" and t.enc.bits <= 6 \
            and not t.enc.context_cals and not (t.enc.little and t.enc.bits % 8)

    def criteria_candidates(self, cx: Ctxt):
        out = []
        for name, t in cx.avail:
            if isinstance(t.enc, ir.IntEnc) and t.enc.bits <= 16 and t.kind in ("integer", "enumerated", "boolean"):
                out.append((name, t))
        return out

    def domain(self, t: ir.PType):
        """some raw values the field can take (for literals)"""
        e = t.enc
        lo, hi = (0, (1 << e.bits) - 1) if e.encoding == "unsigned" else (-(1 << (e.bits - 1)), (1 << (e.bits - 1)) - 1)
        if t.kind == "enumerated":
            return [v for v, _ in t.enumeration]
        vals = {lo, hi, 0, min(hi, 1), min(hi, 2)}
        for _ in range(3):
            vals.add(self.rng.randrange(lo, hi + 1))
        return sorted(vals)

    def comparison_on(self, name, t: ir.PType):
        r = self.rng
        raw = r.choice(self.domain(t))
        calibrated = r.random() < 0.6
        op = r.choice(["==", "==", "==", "!=", "<", ">", "<=", ">=", "eq", "neq", "lt", "gt", "leq", "geq", "&lt;", "&gt;=", "&lt;=", "&gt;"])
        if t.kind == "enumerated":
            if calibrated:
                lab = dict(t.enumeration)[raw]
                return ir.Comparison(name, lab, r.choice(["==", "!=", "eq", "neq"]), True)
            return ir.Comparison(name, str(raw), op, False)
        if t.kind == "boolean":
            return ir.Comparison(name, str(int(bool(raw))) if calibrated else str(raw), op if not calibrated else r.choice(["==", "!="]), calibrated)
        has_cal = t.enc.default_cal is not None or bool(t.enc.context_cals)
        if calibrated and has_cal:
            # derived value is a float. Only exactly representable calibrations (integer-coefficient linear polynomial,
            # no context list) are compared through the calibrated selector: anything else would make the verdict
            # depend on the last ulp of the library's float arithmetic. Others use the raw selector.
            if t.enc.context_cals or not integral_poly(t.enc.default_cal):
                return ir.Comparison(name, str(raw), op, False)
            ex, _ = ref.calibrate(t.enc.default_cal, raw)
            return ir.Comparison(name, repr(float(ex)) if r.random() < 0.5 else str(int(ex)) + ".0", op, True)
        return ir.Comparison(name, str(raw), op, calibrated)

    def condition_on(self, cands):
        r = self.rng
        name, t = r.choice(cands)
        c = self.comparison_on(name, t)
        if r.random() < 0.4 and len(cands) >= 2:
            def exact(tt):   # derived value exactly representable: uncalibrated, or integer-coefficient linear polynomial
                return tt.kind == "integer" and not tt.enc.context_cals and (tt.enc.default_cal is None or integral_poly(tt.enc.default_cal))
            pool2 = [c_ for c_ in cands if c_[0] != name] or cands
            # prefer a right-hand parameter whose calibrated value differs from its raw value: only then do the two value selectors
            # (useCalibratedValue on either side) make a difference
            cal2 = [c_ for c_ in pool2 if exact(c_[1]) and c_[1].enc.default_cal is not None]
            n2, t2 = r.choice(cal2) if cal2 and r.random() < 0.6 else r.choice(pool2)
            if t.kind != "enumerated" and t2.kind != "enumerated":
                rc = r.random() < 0.5 if exact(t2) else False
                lc = ((not rc) if r.random() < 0.7 else rc) if exact(t) else False
                return ir.Condition(name, c.op, right_param=n2, left_cal=lc, right_cal=rc)
        return ir.Condition(name, c.op, right_value=c.value, left_cal=c.calibrated, right_cal=False)

    def criteria(self, cx: Ctxt, allow_none=True):
        """restriction / context criteria over parameters decoded earlier"""
        r = self.rng
        cands = self.criteria_candidates(cx)
        if not cands:
            return None if allow_none else None
        if r.random() < self.p.p_boolexpr:
            def tree(depth, op):
                kids = []
                for _ in range(r.randrange(2, 4)):
                    if depth > 1 and r.random() < 0.35:
                        kids.append(tree(depth - 1, "O" if op == "A" else "A"))
                    else:
                        kids.append(self.condition_on(cands))
                return ir.And(tuple(kids)) if op == "A" else ir.Or(tuple(kids))
            if r.random() < 0.3:
                return ir.BoolExpr(self.condition_on(cands))
            return ir.BoolExpr(tree(r.randrange(1, 4), r.choice("AO")))
        n = r.choice([1, 1, 1, 2, 2, 3])
        return tuple(self.comparison_on(*r.choice(cands)) for _ in range(n))

    # ---- calibrators ----------------------------------------------------------------------------------------------
    def poly(self, integral=False, max_exp=3):
        r = self.rng
        if integral:
            return ir.Poly(((float(r.randrange(0, 9)), 0), (float(r.choice([1, 2, 8])), 1)))
        nt = r.randrange(1, 4)
        return ir.Poly(tuple((round(r.uniform(-50, 50), 3) if r.random() < 0.6 else r.uniform(-50, 50) / 3 if r.random() < 0.5 else float(r.randrange(-3, 4)), e)
                             for e in r.sample(list(range(max_exp + 1)), min(nt, max_exp + 1))))

    def spline(self, enc):
        r = self.rng
        if isinstance(enc, ir.IntEnc):
            lo, hi = (0, (1 << enc.bits) - 1) if enc.encoding == "unsigned" else (-(1 << (enc.bits - 1)), (1 << (enc.bits - 1)) - 1)
            n = min(r.randrange(1, 6), hi - lo + 1)
            if r.random() < 0.5 and hi - lo >= 1:
                xs = sorted(set([lo, hi] + [r.randrange(lo, hi + 1) for _ in range(max(0, n - 2))]))
            else:
                xs = sorted({r.randrange(lo, hi + 1) for _ in range(n)})
            xs = [float(x) for x in xs]
        else:
            xs = sorted({round(r.uniform(-100, 100), 2) for _ in range(r.randrange(2, 6))})
        order = r.choice([0, 1]) if len(xs) >= 2 else 0
        return ir.Spline(tuple((x, round(r.uniform(-1e3, 1e3), 3)) for x in xs), order, r.random() < 0.6)

    def calibrators(self, enc, cx: Ctxt, self_name):
        r = self.rng
        default, ctxs = None, ()
        if r.random() < self.p.p_calibrated:
            default = self.poly() if r.random() < 0.6 else self.spline(enc)
        if r.random() < self.p.p_context * self.p.p_calibrated * 2:
            lst = []
            for _ in range(r.randrange(1, 4)):
                if r.random() < 0.3 and isinstance(enc, ir.IntEnc):
                    lo, hi = (0, (1 << enc.bits) - 1) if enc.encoding == "unsigned" else (-(1 << (enc.bits - 1)), (1 << (enc.bits - 1)) - 1)
                    crit = (ir.Comparison(self_name, str(r.randrange(lo, hi + 1)), r.choice(["<", ">", ">=", "!=", "=="]), False),)
                else:
                    crit = self.criteria(cx)
                if crit is None:
                    continue
                lst.append(ir.ContextCal(crit, self.poly() if r.random() < 0.7 else self.spline(enc)))
            ctxs = tuple(lst)
        return default, ctxs

    # ---- encodings --------------------------------------------------------------------------------------------------
    def int_enc(self, cx, self_name, width=None, calibrate=True):
        r = self.rng
        little = r.random() < self.p.p_little
        if width is None:
            if little:
                width = r.choice([8, 16, 24, 32, 64])
            else:
                width = r.choice([1, 2, 3, 4, 5, 7, 8, 9, 12, 13, 16, 17, 24, 32, 33] + ([48, 64, 65, 70] if self.p.wide_ints else []))
        encoding = r.choice(["unsigned", "unsigned", "unsigned", "signed", "twosComplement", "twosCompliment"])
        e = ir.IntEnc(width, encoding, little)
        if calibrate and width <= 32:
            d, c = self.calibrators(e, cx, self_name)
            e = ir.IntEnc(width, encoding, little, d, c)
        return e

    def float_enc(self, cx, self_name, calibrate=True):
        r = self.rng
        kind = r.choice(["IEEE754", "IEEE754", "IEEE754_1985", "MILSTD_1750A"])
        width = 32 if kind == "MILSTD_1750A" else r.choice([16, 32, 64])
        if self.p.legacy_float_spellings and r.random() < 0.5:
            # unofficial spellings the library tolerates (with a warning) and treats as the official ones
            kind = "MIL-1750A" if kind == "MILSTD_1750A" else "IEEE-754"
        e = ir.FloatEnc(width, kind, r.random() < self.p.p_little)
        if calibrate and r.random() < 0.5:
            d, c = self.calibrators(e, cx, self_name)
            if isinstance(d, ir.Spline) or any(isinstance(x.cal, ir.Spline) for x in c):
                # arbitrary float raws would mostly fall outside a spline without extrapolation => keep polys here
                d = self.poly() if d is not None else None
                c = tuple(ir.ContextCal(x.criteria, self.poly()) for x in c)
            # float raws can be astronomically large (1750A: 2^127): keep exponents <= 2 so the library's own float
            # arithmetic cannot overflow
            d = self.poly(max_exp=2) if d is not None else None
            c = tuple(ir.ContextCal(x.criteria, self.poly(max_exp=2)) for x in c)
            e = ir.FloatEnc(width, kind, e.little, d, c)
        return e

    def length_spec(self, cx: Ctxt, unit_bits=8, min_units=0):
        """fixed | dynamic reference (+- linear adjustment, raw/calibrated) | discrete lookup"""
        r = self.rng
        refs = [(n, t) for n, t in cx.avail if self.small_uint(t)]
        if refs and r.random() < self.p.p_dynamic:
            name, t = r.choice(refs)
            calibrated = r.random() < 0.5
            if t.enc.default_cal == ir.Poly(((0.5, 1),)):
                # fractional derived value, whole length: the slope is an even multiple of the unit
                slope = 2 * unit_bits * r.choice([1, 1, 2])
                return ir.DynLen(name, True, slope, r.choice([None, unit_bits * min_units, unit_bits * max(1, min_units)]) if min_units == 0 else unit_bits * min_units)
            if t.enc.default_cal is not None and not integral_poly(t.enc.default_cal):
                calibrated = False   # a non-integral calibrated length is meaningless
            form = r.randrange(5)
            if form == 0 and unit_bits == 1:
                return ir.DynLen(name, calibrated, None, None)
            if form == 4:
                # a LinearAdjustment that gives only an intercept: the omitted slope is the schema default 0, i.e. a constant size
                return ir.DynLen(name, calibrated, None, unit_bits * r.randrange(max(1, min_units), 5))
            slope = r.choice([unit_bits, unit_bits, 2 * unit_bits, 16])
            if unit_bits > 1 and slope % unit_bits:
                slope = unit_bits
            intercept = r.choice([0, 0, unit_bits * min_units, 8, 16, -8 if self.p.negative_lengths else 0, -16 if self.p.negative_lengths else 8])
            if form == 1:
                return ir.DynLen(name, calibrated, slope, None) if min_units == 0 else ir.DynLen(name, calibrated, slope, unit_bits * min_units)
            return ir.DynLen(name, calibrated, slope, intercept if intercept or min_units == 0 else unit_bits * min_units)
        cands = self.criteria_candidates(cx)
        if cands and r.random() < self.p.p_dynamic * 0.5:
            entries = []
            for _ in range(r.randrange(1, 4)):
                n = r.choice([1, 1, 2])
                crit = tuple(self.comparison_on(*r.choice(cands)) for _ in range(n))
                # a matching entry whose value is 0 (an empty field) is a value, not "no match": one entry in four where 0 is legal
                units = 0 if (min_units == 0 and r.random() < 0.25) else r.randrange(max(1, min_units), 6)
                entries.append((crit, unit_bits * units))
            # a catch-all last entry so that most packets find a match
            name, t = r.choice(cands)
            if r.random() < 0.8:
                entries.append(((ir.Comparison(name, str(self.domain(t)[0]), ">=", False),),
                                unit_bits * (0 if (min_units == 0 and r.random() < 0.15) else r.randrange(max(1, min_units), 4))))
            return ir.Lookup(tuple(entries))
        return unit_bits * r.randrange(max(1, min_units), 7) if unit_bits > 1 else r.choice([1, 3, 8, 11, 16, 24, 40])

    def string_enc(self, cx):
        r = self.rng
        charset = r.choice(SINGLE_BYTE + (MULTI_BYTE if self.p.multi_byte_strings else []))
        unit = ref.CODE_UNIT[charset]
        delim = r.choice(["none", "term", "lead"])
        if delim == "none":
            return ir.StrEnc(charset, self.length_spec(cx, 8 * unit, 0 if r.random() < 0.2 else 1))
        if delim == "term":
            ch = r.choice(["\x00", "\x00", ";", "X", "\n"] + (["\u00a7", "\u20ac", "\U0001F600"] if charset.startswith("UTF") else []))
            term = ch.encode(ref.PY_CODEC[charset]).hex()
            return ir.StrEnc(charset, self.length_spec(cx, 8 * unit, 1), termination=term)
        ls = r.choice([8, 16, 8, 5, 12])
        L = self.length_spec(cx, 8 * unit, 1)
        # the buffer must hold the size tag: shift fixed sizes / intercepts by the tag width
        if isinstance(L, int):
            L = L + ls
        elif isinstance(L, ir.DynLen):
            if L.slope is None and L.intercept is not None:
                L = ir.DynLen(L.ref, L.calibrated, None, L.intercept + ls)
            else:
                L = ir.DynLen(L.ref, L.calibrated, L.slope if L.slope is not None else 8 * unit, (L.intercept or 0) + ls)
        else:
            L = ir.Lookup(tuple((c, v + ls) for c, v in L.entries))
        return ir.StrEnc(charset, L, leading_size=ls)

    # ---- types -----------------------------------------------------------------------------------------------------
    def ptype(self, cx: Ctxt, pname, kind=None, steering=False):
        r = self.rng
        kind = kind or r.choice(self.p.kinds)
        tname = pname + "_Type"
        unit = r.choice([None, None, "s", "m/s", "deg C"])
        if steering:
            k = r.choice(["integer", "integer", "enumerated", "boolean"])
            w = r.choice([1, 2, 2, 3])
            e = ir.IntEnc(w, "unsigned", False)
            if k == "integer" and r.random() < 0.25:
                e = ir.IntEnc(w, "unsigned", False, self.poly(integral=True), ())
            elif k == "integer" and r.random() < 0.4:
                # "half" calibrator (a count of bytes calibrated to 16-bit words, ...): derived values x.5 that a length
                # reference's slope makes whole again
                e = ir.IntEnc(w, "unsigned", False, ir.Poly(((0.5, 1),)), ())
            if k == "enumerated":
                return ir.PType(tname, k, e, unit, tuple((v, f"S{v}_{pname}") for v in range(1 << w) if r.random() < 0.85 or v == 0))
            return ir.PType(tname, k, e, unit)
        if kind == "integer":
            return ir.PType(tname, kind, self.int_enc(cx, pname), unit)
        if kind == "float":
            enc = self.float_enc(cx, pname) if r.random() < 0.7 else self.int_enc(cx, pname, width=r.choice([8, 12, 16]))
            return ir.PType(tname, kind, enc, unit)
        if kind == "boolean":
            enc = self.int_enc(cx, pname, width=r.choice([1, 1, 8, 3])) if r.random() < 0.8 else self.float_enc(cx, pname, calibrate=False)
            return ir.PType(tname, kind, enc, unit)
        if kind == "enumerated":
            if r.random() < 0.85:
                w = r.choice([1, 2, 3, 4, 8])
                enc = self.int_enc(cx, pname, width=w)
                lo, hi = (0, (1 << w) - 1) if enc.encoding == "unsigned" else (-(1 << (w - 1)), (1 << (w - 1)) - 1)
                vals = [v for v in range(lo, hi + 1)] if w <= 4 else sorted({lo, hi, 0, 1} | {r.randrange(lo, hi + 1) for _ in range(10)})
                keep = [v for v in vals if r.random() < 0.8] or vals[:1]
                return ir.PType(tname, kind, enc, unit, tuple((v, f"{pname}_L{i}") for i, v in enumerate(keep)))
            if r.random() < 0.5:
                enc = ir.FloatEnc(32, "IEEE754", r.random() < 0.3)
                return ir.PType(tname, kind, enc, unit, ((0.0, "ZERO"), (1.0, "ONE"), (-2.5, "NEG"), (1e10, "BIG")))
            # string-encoded enumeration: fixed-size buffer holding one of a few equally long texts
            charset = r.choice(SINGLE_BYTE + (MULTI_BYTE + ["UTF-16", "UTF-32"] if self.p.multi_byte_strings else []))
            bo = r.choice([ir.MSB, ir.LSB]) if charset in ("UTF-16", "UTF-32") else None
            texts = r.choice([("ON ", "OFF", "MID"), ("A", "B", "C", "D"), ("LOW_", "HIGH")])
            nbits = 8 * len(ref.encode_text(texts[0], charset, bo))
            enc = ir.StrEnc(charset, nbits, None, None, bo)
            return ir.PType(tname, kind, enc, unit, tuple((tx, f"{pname}_{tx.strip()}") for tx in texts))
        if kind == "string":
            return ir.PType(tname, kind, self.string_enc(cx), unit)
        if kind == "binary":
            return ir.PType(tname, kind, ir.BinEnc(self.length_spec(cx, r.choice([1, 8, 8]), 0)), unit)
        # time types: numeric encoding + optional scale/offset
        enc = self.int_enc(cx, pname, width=r.choice([8, 16, 32]), calibrate=False) if r.random() < 0.7 else \
            ir.FloatEnc(r.choice([32, 64]), "IEEE754", False)
        return ir.PType(tname, kind, enc, r.choice([None, "s", "us"]), scale=r.choice([None, None, 0.001, 2.0, 1.0]),
                        offset=r.choice([None, None, 1000.0, -0.5, 0.0]), epoch=r.choice([None, "TAI", "2000-01-01T00:00:00", "GPS"]),
                        offset_from=self.offset_from(cx))

    def offset_from(self, cx):
        """ReferenceTime/OffsetFrom names another (numeric) parameter that occurs earlier in the packet; it is descriptive: the
        decoded value of the time parameter itself does not depend on it"""
        r = self.rng
        earlier = [n for n, t in cx.avail[7:] if t.kind in ("integer", "float", "abstime", "reltime")]
        return r.choice(earlier) if earlier and r.random() < 0.35 else None

    def add_param(self, cx: Ctxt, stem="P", kind=None, steering=False):
        name = self.fresh(stem)
        t = self.ptype(cx, name, kind, steering)
        self.types.append(t)
        self.params.append(ir.Param(name, t.name, self.text(), self.text()))
        return name, t

    # ---- containers ----------------------------------------------------------------------------------------------------
    def body(self, cx: Ctxt, shared_nested, used_nested, n_entries=None):
        """entries of one container: steering params, ordinary params, nested refs. returns (entries, newly available)"""
        r = self.rng
        entries, new = [], []
        n = r.randrange(0, self.p.max_entries + 1) if n_entries is None else n_entries
        for _ in range(n):
            here = cx.extended(new)
            roll = r.random()
            if roll < self.p.p_nested and not self.p.flat:
                # nested container: a fresh one or a shared one not yet on this path
                cands = [c for c in shared_nested if c not in used_nested]
                if cands and r.random() < 0.5:
                    cn = r.choice(cands)
                else:
                    cn = self.nested_container(Ctxt(list(cx.avail[:7])))   # may only reference the header
                    shared_nested.append(cn)
                used_nested.add(cn)
                entries.append(("c", cn))
                new += self.nested_params[cn]
            elif roll < self.p.p_nested + 0.3:
                name, t = self.add_param(here, "S", steering=True)
                entries.append(("p", name))
                new.append((name, t))
            else:
                name, t = self.add_param(here, "P")
                entries.append(("p", name))
                new.append((name, t))
        return entries, new

    def nested_container(self, cx: Ctxt):
        name = self.fresh("Nested")
        entries, new = [], []
        for _ in range(self.rng.randrange(1, 4)):
            pn, t = self.add_param(cx.extended(new), "N", steering=self.rng.random() < 0.3)
            entries.append(("p", pn))
            new.append((pn, t))
        if not hasattr(self, "nested_params"):
            self.nested_params = {}
        self.nested_params[name] = new
        self.containers.append(ir.Container(name, tuple(entries), None, None, False, self.text(), self.text()))
        return name

    def document(self) -> ir.Doc:
        r = self.rng
        self.nested_params = {}
        hdr = []
        for n, w in HEADER:
            name = self.p.header_apid_name if n == "PKT_APID" else n
            t = ir.PType(name + "_Type", "integer", ir.IntEnc(w, "unsigned", False), None)
            self.types.append(t)
            self.params.append(ir.Param(name, t.name, self.text(), None))
            hdr.append((name, t))
        cx0 = Ctxt(list(hdr))
        shared, used = [], set()
        root_entries = [("p", n) for n, _ in hdr]
        extra, new = self.body(cx0, shared, used, n_entries=r.choice([0, 0, 1, 2]))
        root_entries += extra
        root_abstract = r.random() < 0.6
        root_index = len(self.containers)
        self.containers.append(None)   # placeholder keeps the root first-ish; nested ones may precede it
        tree = []

        def grow(parent, cx, depth, used_here):
            fan = r.randrange(0, self.p.max_fanout + 1) if depth > 0 else 0
            if parent == "CCSDSPacket" and fan == 0:
                fan = r.randrange(1, self.p.max_fanout + 1)
            for _ in range(fan):
                name = self.fresh("C")
                used_c = set(used_here)
                entries, newp = self.body(cx, shared, used_c)
                crit = self.criteria(cx)
                if crit is None or r.random() < 0.05:
                    crit_final = crit
                else:
                    crit_final = crit
                abstract = r.random() < self.p.p_abstract
                tree.append(ir.Container(name, tuple(entries), parent, crit_final, abstract, self.text(), self.text()))
                grow(name, cx.extended(newp), depth - 1, used_c)

        grow("CCSDSPacket", cx0.extended(new), self.p.max_depth, used)
        self.containers[root_index] = ir.Container("CCSDSPacket", tuple(root_entries), None, None, root_abstract,
                                                  self.text(), self.text())
        # shuffle the document order of non-root containers a little (definition order must not matter)
        rest = [c for i, c in enumerate(self.containers) if i != root_index] + tree
        if r.random() < 0.5:
            r.shuffle(rest)
        conts = [self.containers[root_index]] + rest if r.random() < 0.7 else rest + [self.containers[root_index]]
        return ir.Doc(tuple(self.types), tuple(self.params), tuple(conts), "CCSDSPacket",
                      r.choice(["VMON", "Sys-1", None]), "2024-01-01T00:00:00", "1.0", r.choice(["Unknown", "Working", "Draft"]))


def gen_document(rng, profile=None) -> ir.Doc:
    return DocGen(rng, profile).document()


# =================================================================================================================
# packets
# =================================================================================================================
def literal_pool(doc: ir.Doc):
    """raw values worth trying per parameter: literals of comparisons that mention it"""
    pool = {}

    def add(name, lit):
        try:
            v = int(float(lit))
        except (ValueError, OverflowError):
            return
        for d in (-1, 0, 1):
            pool.setdefault(name, set()).add(v + d)

    def walk(x):
        if isinstance(x, ir.Comparison):
            add(x.ref, x.value)
        elif isinstance(x, ir.Condition):
            if x.right_value is not None:
                add(x.left, x.right_value)
        elif isinstance(x, (ir.And, ir.Or)):
            for i in x.items:
                walk(i)
        elif isinstance(x, ir.BoolExpr):
            walk(x.expr)
        elif isinstance(x, tuple):
            for i in x:
                walk(i)
    for c in doc.containers:
        if c.criteria is not None:
            walk(c.criteria)
    for t in doc.types:
        e = t.enc
        for cc in getattr(e, "context_cals", ()):
            walk(cc.criteria)
        L = getattr(e, "length", None)
        if isinstance(L, ir.Lookup):
            for crit, _ in L.entries:
                walk(crit)
    return pool


def encode_int(enc: ir.IntEnc, raw: int) -> str:
    n = enc.bits
    v = raw if raw >= 0 else raw + (1 << n)
    v &= (1 << n) - 1
    fb = bits.to_bits(v, n)
    return bits.reverse_bytes(fb) if enc.little and n % 8 == 0 else fb


def random_text(rng, charset, nchars):
    pools = {"US-ASCII": "ABCxyz019 _-", "ISO-8859-1": "ABCxyz019 éüñ", "Windows-1252": "ABCxyz019 é€ž",
             "UTF-8": "ABCxyz019 éü日本Āα"}
    pool = pools.get(charset, "ABxy01 ĀαéЖ日")
    return "".join(rng.choice(pool) for _ in range(nchars))


def string_bits(rng, enc: ir.StrEnc, L: int):
    """content bits for a string buffer of L bits, consistent with the delimitation most of the time"""
    codec = ref.PY_CODEC.get(enc.charset, "utf-8")
    unit = ref.CODE_UNIT.get(enc.charset, 1)
    nbytes = L // 8
    hostile = rng.random() < 0.12

    def fit(text, room):
        raw = text.encode(codec, errors="ignore")
        while len(raw) > room:
            text = text[:-1]
            raw = text.encode(codec, errors="ignore")
        return raw

    if enc.leading_size is not None:
        ls = enc.leading_size
        room = max(0, (L - ls) // 8)
        room -= room % unit
        room = min(room, ((1 << ls) - 1) // 8)
        raw = fit(random_text(rng, enc.charset, rng.randrange(0, room // unit + 1)), room)
        n = len(raw) * 8
        if hostile and room:
            n = rng.choice([n, n + 8, (1 << ls) - 1 if (1 << ls) - 1 < 4096 else n, 3])
            n = min(n, (1 << ls) - 1)
        body = bits.to_bits(n, ls) + bits.bitstr(raw)
        body = body[:L]
        return body + "".join(rng.choice("01") for _ in range(L - len(body)))
    if enc.termination is not None:
        term = bytes.fromhex(enc.termination)
        room = nbytes - len(term)
        room -= room % unit if room > 0 else 0
        if room < 0 or (hostile and rng.random() < 0.5):
            raw = fit(random_text(rng, enc.charset, nbytes // unit), nbytes)   # terminator probably absent
            raw = raw + b"A" * 0
        else:
            text = random_text(rng, enc.charset, rng.randrange(0, room // unit + 1))
            tch = term.decode(codec, errors="ignore")
            text = text.replace(tch, "")
            raw = fit(text, room) + term
            raw += fit(random_text(rng, enc.charset, (nbytes - len(raw)) // unit), nbytes - len(raw))
        raw = raw + b"\x20" * (nbytes - len(raw)) if unit == 1 else raw + bytes(nbytes - len(raw))
        fb = bits.bitstr(raw[:nbytes])
        return fb + "".join(rng.choice("01") for _ in range(L - len(fb)))
    if hostile:
        return "".join(rng.choice("01") for _ in range(L))
    raw = fit(random_text(rng, enc.charset, nbytes // unit), nbytes)
    pad = (" " * nbytes).encode(codec)[:nbytes - len(raw)] if nbytes - len(raw) >= unit else b""
    raw = raw + pad
    raw = raw + bytes(nbytes - len(raw))
    fb = bits.bitstr(raw)
    return fb + "0" * (L - len(fb))


class PacketBuilder:
    """forward sampler: walks the document like the reference decoder but PRODUCES the bits."""

    def __init__(self, doc: ir.Doc, rng):
        self.doc = doc
        self.rng = rng
        self.tm, self.pm, self.cm = doc.type_map(), doc.param_map(), doc.container_map()
        self.children = {}
        for c in doc.containers:
            if c.base is not None:
                self.children.setdefault(c.base, []).append(c)
        self.pool = literal_pool(doc)
        text = repr(doc.containers) + repr([t.enc for t in doc.types])
        self.pktlen_referenced = "'PKT_LEN'" in text
        self.max_bits = 8 * 2000

    def choose_field(self, name, t: ir.PType, env):
        """-> field bits for parameter `name` (may raise ref.ModelError if the length cannot be computed)"""
        r = self.rng
        e = t.enc
        if name == "PKT_LEN" and getattr(self, "forced_pktlen", None) is not None and isinstance(e, ir.IntEnc) and e.bits == 16:
            return bits.to_bits(self.forced_pktlen & 0xFFFF, 16)
        if isinstance(e, ir.IntEnc):
            n = e.bits
            lo, hi = (0, (1 << n) - 1) if e.encoding == "unsigned" else (-(1 << (n - 1)), (1 << (n - 1)) - 1)
            cands = [v for v in self.pool.get(name, ()) if lo <= v <= hi]
            if t.kind == "enumerated" and r.random() < 0.93:
                cands = [v for v, _ in t.enumeration if lo <= v <= hi] or cands
            roll = r.random()
            spl = [c_ for c_ in [e.default_cal] + [cc.cal for cc in e.context_cals]
                   if isinstance(c_, ir.Spline) and not c_.extrapolate]
            if spl and r.random() < 0.9:
                xs = [int(p[0]) for p in r.choice(spl).points]
                inside = sorted(set(xs + [r.randrange(xs[0], xs[-1] + 1) for _ in range(3)]))
                cands = [v for v in inside if lo <= v <= hi] or cands
                roll = 0.0
            if cands and roll < 0.6:
                raw = r.choice(sorted(cands))
            elif roll < 0.8:
                raw = r.choice([lo, hi, 0, min(1, hi), -1 if lo < 0 else hi, (hi + lo) // 2])
            else:
                raw = r.randrange(lo, hi + 1)
            if e.little and n % 8:
                return bits.to_bits(r.getrandbits(n), n)
            return encode_int(e, raw)
        if isinstance(e, ir.FloatEnc):
            if e.encoding in ("MILSTD_1750A", "MIL-1750A"):
                fb = bits.to_bits(r.getrandbits(32), 32)
                return fb
            if t.kind == "enumerated" and r.random() < 0.9:
                x = r.choice([v for v, _ in t.enumeration])
            else:
                x = r.choice([0.0, -0.0, 1.0, -1.5, 2.5, 1e10, float("inf"), float("nan"), 5e-324, r.uniform(-100, 100),
                              r.uniform(-1e6, 1e6)])
            fmt = {16: "e", 32: "f", 64: "d"}[e.bits]
            try:
                raw = struct.pack(">" + fmt, x)
            except OverflowError:
                raw = struct.pack(">" + fmt, 1.0)
            if r.random() < 0.15:
                raw = bytes(r.getrandbits(8) for _ in range(e.bits // 8))
            fb = bits.bitstr(raw)
            return bits.reverse_bytes(fb) if e.little else fb
        L = ref.length_of(e.length, env)
        if L < 0:
            raise ref.NegativeLength(L)
        if t.kind == "enumerated" and isinstance(e, ir.StrEnc):
            if r.random() < 0.9:
                return bits.bitstr(ref.encode_text(r.choice([v for v, _ in t.enumeration]), e.charset, e.byte_order))
            return "".join(r.choice("01") for _ in range(L))
        if L > self.max_bits:
            raise ref.ModelError("too-long-for-workload", str(L))
        if isinstance(e, ir.BinEnc):
            mode = r.random()
            if mode < 0.15:
                return "0" * L
            if mode < 0.25:
                return "1" * L
            return "".join(r.choice("01") for _ in range(L))
        return string_bits(r, e, L)

    def build(self, target=None, tries=12, length_delta=0):
        """-> (raw packet bytes, meta). When the document references PKT_LEN (criteria, lengths), the packet is rebuilt with
        the same random choices and PKT_LEN forced to the actual length until that is a fixed point (so that such
        packets are usually well-formed AND consistent); otherwise PKT_LEN is simply patched afterwards."""
        self.forced_pktlen = None
        if not self.pktlen_referenced or length_delta != 0:
            return self._build(target, tries, length_delta)
        state = self.rng.getstate()
        raw, meta = self._build(target, tries, 0, patch_len=True)
        for _ in range(3):
            after = self.rng.getstate()
            self.rng.setstate(state)
            self.forced_pktlen = len(raw) - 7
            raw2, meta2 = self._build(target, tries, 0, patch_len=True)
            if len(raw2) == len(raw):
                self.forced_pktlen = None
                return raw2, meta2
            raw = raw2
        self.forced_pktlen = None
        self.rng.setstate(state)
        return self._build(target, tries, 0)

    def _build(self, target=None, tries=12, length_delta=0, patch_len=False):
        r = self.rng
        allbits = ""
        env = {}
        cur = self.cm[self.doc.root]
        want_path = None
        if target is not None:
            want_path = []
            c = self.cm[target]
            while c is not None:
                want_path.append(c.name)
                c = self.cm.get(c.base) if c.base else None
            want_path.reverse()
        seen = set()
        aborted = None

        def emit_container(c, bits_acc, env_acc):
            for kind, name in c.entries:
                if kind == "c":
                    bits_acc = emit_container(self.cm[name], bits_acc, env_acc)
                    continue
                t = self.tm[self.pm[name].type]
                fb = self.choose_field(name, t, env_acc)
                pos = len(bits_acc)
                bits_acc += fb
                try:
                    v, _ = ref.decode_param(t, bits_acc, pos, env_acc)
                except ref.ModelError:
                    v = ref.Val(None, None, "int", dontcare=True)
                    raise
                except ref.DontCare:
                    v = ref.Val(None, None, "int", dontcare=True)
                env_acc[name] = v
            return bits_acc

        depth = 0
        try:
            while True:
                if cur.name in seen:
                    break
                seen.add(cur.name)
                best = None
                kids = self.children.get(cur.name, [])
                want_child = None
                if want_path and cur.name in want_path:
                    i = want_path.index(cur.name)
                    want_child = want_path[i + 1] if i + 1 < len(want_path) else None
                for attempt in range(tries):
                    e2 = dict(env)
                    b2 = emit_container(cur, allbits, e2)
                    try:
                        valid = [k.name for k in kids if ref.eval_criteria(k.criteria, e2)]
                    except (ref.ModelError, ref.DontCare):
                        valid = None
                    best = (b2, e2, valid)
                    if want_child is None or (valid is not None and valid == [want_child]):
                        break
                allbits, env, valid = best
                depth += 1
                if valid is None or len(valid) != 1:
                    break
                cur = self.cm[valid[0]]
        except (ref.ModelError, ref.NegativeLength, ref.OverRead, ref.DontCare) as ex:
            aborted = type(ex).__name__
            # keep what we have: the header (48 bits) is always there because it cannot fail
            if len(allbits) < 48:
                allbits = allbits + "0" * (48 - len(allbits))
        # ---- make it a well-formed CCSDS packet -------------------------------------------------------------------
        body_bits = len(allbits) - 48
        nbytes_body = max(1, (body_bits + 7) // 8)
        allbits = allbits + "".join(r.choice("01") for _ in range(48 + nbytes_body * 8 - len(allbits)))
        if length_delta > 0:
            allbits += "".join(r.choice("01") for _ in range(8 * length_delta))
        elif length_delta < 0:
            keep = max(1, nbytes_body + length_delta)
            allbits = allbits[:48 + 8 * keep]
        nbytes_body = (len(allbits) - 48) // 8
        if self.pktlen_referenced and length_delta == 0 and not patch_len:
            # PKT_LEN was (possibly) used while steering: keep its value and force the total length to match it
            declared = bits.u(allbits[32:48]) + 1
            if declared > 4096:
                declared = nbytes_body
                allbits = allbits[:32] + bits.to_bits(declared - 1, 16) + allbits[48:]
            if declared > nbytes_body:
                allbits += "".join(r.choice("01") for _ in range(8 * (declared - nbytes_body)))
            else:
                allbits = allbits[:48 + 8 * declared]
        else:
            allbits = allbits[:32] + bits.to_bits(nbytes_body - 1, 16) + allbits[48:]
        raw = bytes(int(allbits[i:i + 8], 2) for i in range(0, len(allbits), 8))
        return raw, {"aborted": aborted, "depth": depth}


def gen_packets(rng, doc: ir.Doc, n, deltas=(0,)):
    """n steered + random packets; every container is targeted at least once when n allows"""
    pb = PacketBuilder(doc, rng)
    names = [c.name for c in doc.containers if c.base is not None or c.name == doc.root]
    out = []
    for i in range(n):
        target = names[i % len(names)] if i < len(names) * 2 else (rng.choice(names) if rng.random() < 0.7 else None)
        raw, meta = pb.build(target, length_delta=rng.choice(deltas))
        out.append(raw)
    return out
