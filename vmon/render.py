"""IR -> XTCE XML text. My own writer (no library code).

Namespace styles: ("prefix", "xtce") | ("default",) | ("none",).
Trivia: optional callable trivia(path, index, n_children) -> str inserted before child `index` (index == n_children:
after the last child) of every element-only parent; used by C16 to place comments / PIs / whitespace.
Defaults: attributes equal to their XTCE default are written or omitted per `Opts.explicit` (True / False / rng-chosen).
"""
from vmon import ir

XTCE_URI = "https://www.omg.org/spec/XTCE/20180204"


class E:
    __slots__ = ("tag", "attrs", "children", "text")

    def __init__(self, tag, attrs=None, children=None, text=None):
        self.tag = tag
        self.attrs = {k: v for k, v in (attrs or {}).items() if v is not None}
        self.children = [c for c in (children or []) if c is not None]
        self.text = text


def esc(s, attr=False):
    s = str(s).replace("&", "&amp;").replace("<", "&lt;").replace(">", "&gt;")
    if attr:
        s = s.replace('"', "&quot;").replace("\n", "&#10;").replace("\t", "&#9;").replace("\r", "&#13;")
    else:
        s = s.replace("\r", "&#13;")
    return s


def num(x):
    if isinstance(x, bool):
        return "true" if x else "false"
    if isinstance(x, int):
        return str(x)
    return repr(float(x))


def b(x):
    return "true" if x else "false"


class Opts:
    def __init__(self, explicit=True, rng=None, single_in_list=False):
        self.explicit = explicit      # True: always write defaulted attributes; False: omit; None: use rng
        self.rng = rng
        self.single_in_list = single_in_list

    def write_default(self):
        if self.explicit is None:
            return self.rng.random() < 0.5
        return self.explicit


# ---- criteria ------------------------------------------------------------------------------------------------
def comparison_el(c: ir.Comparison, o: Opts):
    a = {"parameterRef": c.ref, "value": c.value}
    if c.op != "==" or o.write_default():
        a["comparisonOperator"] = c.op
    if not c.calibrated or o.write_default():
        a["useCalibratedValue"] = b(c.calibrated)
    return E("Comparison", a)


def pref_el(name, cal, o: Opts):
    a = {"parameterRef": name}
    if not cal or o.write_default():
        a["useCalibratedValue"] = b(cal)
    return E("ParameterInstanceRef", a)


def condition_el(c: ir.Condition, o: Opts):
    kids = [pref_el(c.left, c.left_cal, o), E("ComparisonOperator", text=c.op)]
    if c.right_param is not None:
        kids.append(pref_el(c.right_param, c.right_cal, o))
    else:
        kids.append(E("Value", text=c.right_value))
    return E("Condition", children=kids)


def bool_el(x, o: Opts):
    if isinstance(x, ir.Condition):
        return condition_el(x, o)
    if isinstance(x, ir.And):
        return E("ANDedConditions", children=[bool_el(i, o) for i in x.items])
    if isinstance(x, ir.Or):
        return E("ORedConditions", children=[bool_el(i, o) for i in x.items])
    raise TypeError(x)


def criteria_els(crit, o: Opts):
    """children for RestrictionCriteria / ContextMatch / DiscreteLookup"""
    if isinstance(crit, ir.BoolExpr):
        return [E("BooleanExpression", children=[bool_el(crit.expr, o)])]
    crit = tuple(crit)
    if len(crit) == 1 and not o.single_in_list:
        return [comparison_el(crit[0], o)]
    return [E("ComparisonList", children=[comparison_el(c, o) for c in crit])]


# ---- calibrators ---------------------------------------------------------------------------------------------
def cal_el(cal, o: Opts):
    if isinstance(cal, ir.Poly):
        return E("PolynomialCalibrator", children=[E("Term", {"exponent": str(e), "coefficient": num(c)}) for c, e in cal.terms])
    a = {}
    if cal.order != 0 or o.write_default():
        a["order"] = str(cal.order)
    if cal.extrapolate or o.write_default():
        a["extrapolate"] = b(cal.extrapolate)
    pts = list(cal.points)
    if o.rng is not None and len(pts) > 1 and o.rng.random() < 0.5:
        # the order of SplinePoint elements in the document carries no meaning - except among points sharing a raw value,
        # where document order decides which one is met first: those keep their relative order
        o.rng.shuffle(pts)
        queues = {}
        for r, c in cal.points:
            queues.setdefault(r, []).append((r, c))
        pts = [queues[r].pop(0) for r, _ in pts]
    return E("SplineCalibrator", a, [E("SplinePoint", {"raw": num(r), "calibrated": num(c)}) for r, c in pts])


def numeric_children(enc, o: Opts):
    kids = []
    if enc.default_cal is not None:
        kids.append(E("DefaultCalibrator", children=[cal_el(enc.default_cal, o)]))
    if enc.context_cals:
        kids.append(E("ContextCalibratorList", children=[
            E("ContextCalibrator", children=[E("ContextMatch", children=criteria_els(cc.criteria, o)),
                                             E("Calibrator", children=[cal_el(cc.cal, o)])])
            for cc in enc.context_cals]))
    return kids


# ---- encodings -----------------------------------------------------------------------------------------------
def dyn_el(d: ir.DynLen, o: Opts):
    kids = [pref_el(d.ref, d.calibrated, o)]
    if d.slope is not None or d.intercept is not None:
        a = {}
        if d.slope is not None:
            a["slope"] = str(d.slope)
        if d.intercept is not None:
            a["intercept"] = str(d.intercept)
        kids.append(E("LinearAdjustment", a))
    return E("DynamicValue", children=kids)


def lookup_el(lk: ir.Lookup, o: Opts):
    return E("DiscreteLookupList", children=[E("DiscreteLookup", {"value": num(v)}, criteria_els(crit, o))
                                             for crit, v in lk.entries])


def enc_el(enc, o: Opts):
    if isinstance(enc, ir.IntEnc):
        a = {"sizeInBits": str(enc.bits)}
        if enc.encoding != "unsigned" or o.write_default():
            a["encoding"] = enc.encoding
        if enc.little or o.write_default():
            a["byteOrder"] = ir.LSB if enc.little else ir.MSB
        return E("IntegerDataEncoding", a, numeric_children(enc, o))
    if isinstance(enc, ir.FloatEnc):
        a = {"sizeInBits": str(enc.bits)}
        if enc.encoding != "IEEE754" or o.write_default():
            a["encoding"] = enc.encoding
        if enc.little or o.write_default():
            a["byteOrder"] = ir.LSB if enc.little else ir.MSB
        return E("FloatDataEncoding", a, numeric_children(enc, o))
    if isinstance(enc, ir.BinEnc):
        L = enc.length
        kid = (E("FixedValue", text=str(L)) if isinstance(L, int) else dyn_el(L, o) if isinstance(L, ir.DynLen)
               else lookup_el(L, o))
        return E("BinaryDataEncoding", children=[E("SizeInBits", children=[kid])])
    if isinstance(enc, ir.StrEnc):
        a = {}
        if enc.charset != "UTF-8" or o.write_default():
            a["encoding"] = enc.charset
        if enc.byte_order is not None:
            a["byteOrder"] = enc.byte_order
        tail = []
        if enc.termination is not None:
            tail.append(E("TerminationChar", text=enc.termination))
        if enc.leading_size is not None:
            tail.append(E("LeadingSize", {"sizeInBitsOfSizeTag": str(enc.leading_size)}))
        L = enc.length
        if isinstance(L, int):
            size = E("SizeInBits", children=[E("Fixed", children=[E("FixedValue", text=str(L))])] + tail)
        else:
            size = E("Variable", {"maxSizeInBits": "65536"},
                     [dyn_el(L, o) if isinstance(L, ir.DynLen) else lookup_el(L, o)] + tail)
        return E("StringDataEncoding", a, [size])
    raise TypeError(enc)


# ---- types / params / containers ------------------------------------------------------------------------------
def enum_value_text(v):
    if isinstance(v, str):
        return v
    return num(v)


def type_el(t: ir.PType, o: Opts):
    tag = ir.KIND_TAG[t.kind]
    if t.kind in ("abstime", "reltime"):
        a = {"units": t.unit}
        if t.scale is not None:
            a["scale"] = num(t.scale)
        if t.offset is not None:
            a["offset"] = num(t.offset)
        kids = [E("Encoding", a, [enc_el(t.enc, o)])]
        if t.offset_from is not None or t.epoch is not None:
            rk = []
            if t.offset_from is not None:
                rk.append(E("OffsetFrom", {"parameterRef": t.offset_from}))
            if t.epoch is not None:
                rk.append(E("Epoch", text=t.epoch))
            kids.append(E("ReferenceTime", children=rk))
        return E(tag, {"name": t.name}, kids)
    kids = []
    if t.unit is not None:
        kids.append(E("UnitSet", children=[E("Unit", text=t.unit)]))
    elif o.write_default():
        kids.append(E("UnitSet"))
    kids.append(enc_el(t.enc, o))
    if t.kind == "enumerated":
        kids.append(E("EnumerationList", children=[E("Enumeration", {"value": enum_value_text(v), "label": lab})
                                                    for v, lab in t.enumeration]))
    a = {"name": t.name}
    if t.kind in ("integer", "float") and o.write_default():
        # attributes describing the ENGINEERING type (XTCE: signed, sizeInBits of the calibrated value); how the raw bits are read is
        # the data encoding's business alone, so they combine freely with any encoding
        if t.kind == "integer":
            a["signed"] = "false" if (len(t.name) + ord(t.name[-1])) % 2 else "true"
        a["sizeInBits"] = "64" if len(t.name) % 3 == 0 else "32"
    if t.kind == "boolean" and o.write_default():
        # informational XTCE attributes (display names of the two states): they do not change what a boolean parameter decodes to
        a["oneStringValue"] = "ENABLED"
        a["zeroStringValue"] = "DISABLED"
    return E(tag, a, kids)


def param_el(p: ir.Param, o: Opts):
    a = {"name": p.name, "parameterTypeRef": p.type, "shortDescription": p.short}
    kids = [E("LongDescription", text=p.long)] if p.long is not None else []
    return E("Parameter", a, kids)


def container_el(c: ir.Container, o: Opts):
    a = {"name": c.name, "shortDescription": c.short}
    if c.abstract or o.write_default():
        a["abstract"] = b(c.abstract)
    kids = []
    if c.long is not None:
        kids.append(E("LongDescription", text=c.long))
    def entry_attrs(key, n, j):
        a_ = {key: n}
        if o.write_default() and (len(n) + j) % 2 == 0:
            a_["shortDescription"] = f"entry {j} of {c.name}"      # a note on the ENTRY (legal XTCE): it does not make another parameter of it
        return a_
    kids.append(E("EntryList", children=[E("ParameterRefEntry", entry_attrs("parameterRef", n, j)) if k == "p"
                                         else E("ContainerRefEntry", entry_attrs("containerRef", n, j)) for j, (k, n) in enumerate(c.entries)]))
    if c.base is not None:
        bk = []
        if c.criteria is not None:
            bk.append(E("RestrictionCriteria", children=criteria_els(c.criteria, o)))
        kids.append(E("BaseContainer", {"containerRef": c.base}, bk))
    return E("SequenceContainer", a, kids)


def doc_el(d: ir.Doc, o: Opts):
    head = E("Header", {"date": d.date, "version": d.version, "validationStatus": d.validation})
    tm = E("TelemetryMetaData", children=[
        E("ParameterTypeSet", children=[type_el(t, o) for t in d.types]),
        E("ParameterSet", children=[param_el(p, o) for p in d.params]),
        E("ContainerSet", children=[container_el(c, o) for c in d.containers])])
    return E("SpaceSystem", {"name": d.system_name}, [head, tm])


# ---- serialisation ---------------------------------------------------------------------------------------------
def serialize(root: E, ns_style=("prefix", "xtce"), trivia=None, pretty=True, extra_ns=None):
    kind = ns_style[0]
    pfx = ns_style[1] + ":" if kind == "prefix" else ""
    out = ['<?xml version="1.0" encoding="UTF-8"?>\n']

    def w(e, depth, path, is_root=False):
        ind = "  " * depth if pretty else ""
        nl = "\n" if pretty else ""
        attrs = "".join(f' {k}="{esc(v, True)}"' for k, v in e.attrs.items())
        if is_root:
            if kind == "prefix":
                attrs = f' xmlns:{ns_style[1]}="{XTCE_URI}"' + attrs
            elif kind == "default":
                attrs = f' xmlns="{XTCE_URI}"' + attrs
            for k, v in (extra_ns or {}).items():
                if k == "":
                    # an unrelated DEFAULT namespace declared next to the XTCE prefix (only possible in prefixed renderings)
                    if kind == "prefix":
                        attrs += f' xmlns="{v}"'
                else:
                    attrs += f' xmlns:{k}="{v}"'
        tag = pfx + e.tag
        here = path + "/" + e.tag
        if e.text is not None:
            out.append(f"{ind}<{tag}{attrs}>{esc(e.text)}</{tag}>{nl}")
            return
        if not e.children:
            t = trivia(here, 0, 0) if trivia else ""
            if t:
                out.append(f"{ind}<{tag}{attrs}>{t}</{tag}>{nl}")
            else:
                out.append(f"{ind}<{tag}{attrs}/>{nl}")
            return
        out.append(f"{ind}<{tag}{attrs}>{nl}")
        n = len(e.children)
        for i, c in enumerate(e.children):
            if trivia:
                t = trivia(here, i, n)
                if t:
                    out.append(t)
            w(c, depth + 1, here)
        if trivia:
            t = trivia(here, n, n)
            if t:
                out.append(t)
        out.append(f"{ind}</{tag}>{nl}")

    w(root, 0, "", True)
    return "".join(out).encode("utf-8")


def element_only_paths(root: E):
    """paths of all element-only parents (for trivia placement)"""
    seen = []

    def walk(e, path):
        here = path + "/" + e.tag
        if e.text is None:
            if here not in seen:
                seen.append(here)
            for c in e.children:
                walk(c, here)
    walk(root, "")
    return seen


def render_doc(d: ir.Doc, ns_style=("prefix", "xtce"), trivia=None, opts=None, pretty=True, extra_ns=None):
    return serialize(doc_el(d, opts or Opts()), ns_style, trivia, pretty, extra_ns)


def render_fragment(e: E, ns_style=("prefix", "xtce")):
    """a single element with the namespace declared on it (for per-element from_xml driving)"""
    return serialize(e, ns_style, None, pretty=False)
