"""IR — a neutral description of an XTCE document (never the library's objects).

Plain frozen dataclasses; equality is structural, which is what the round-trip comparators use.
"""
from dataclasses import dataclass, field
from typing import Optional, Tuple, Union

MSB = "mostSignificantByteFirst"
LSB = "leastSignificantByteFirst"

OPS = {  # every accepted spelling -> canonical relation
    "==": "eq", "eq": "eq", "!=": "ne", "neq": "ne",
    "&lt;": "lt", "lt": "lt", "<": "lt", "&gt;": "gt", "gt": "gt", ">": "gt",
    "&lt;=": "le", "leq": "le", "<=": "le", "&gt;=": "ge", "geq": "ge", ">=": "ge",
}


# ---- criteria ----------------------------------------------------------------------------------------------
@dataclass(frozen=True)
class Comparison:
    ref: str
    value: str
    op: str = "=="
    calibrated: bool = True


@dataclass(frozen=True)
class Condition:
    left: str
    op: str
    right_param: Optional[str] = None
    right_value: Optional[str] = None
    left_cal: bool = True
    right_cal: bool = True      # only meaningful with right_param


@dataclass(frozen=True)
class And:
    items: tuple                # Condition | Or


@dataclass(frozen=True)
class Or:
    items: tuple                # Condition | And


@dataclass(frozen=True)
class BoolExpr:
    expr: object                # Condition | And | Or


# a "criteria" is either a tuple of Comparison (single Comparison or ComparisonList) or one BoolExpr
Criteria = Union[Tuple[Comparison, ...], BoolExpr]


# ---- calibrators -------------------------------------------------------------------------------------------
@dataclass(frozen=True)
class Poly:
    terms: tuple                # ((coefficient: float, exponent: int), ...)


@dataclass(frozen=True)
class Spline:
    points: tuple               # ((raw: float, calibrated: float), ...) strictly increasing raw
    order: int = 0
    extrapolate: bool = False


@dataclass(frozen=True)
class ContextCal:
    criteria: object            # Criteria
    cal: object                 # Poly | Spline


# ---- encodings ---------------------------------------------------------------------------------------------
@dataclass(frozen=True)
class IntEnc:
    bits: int
    encoding: str = "unsigned"  # unsigned | signed | twosComplement | twosCompliment (XTCE 1.1 spelling)
    little: bool = False
    default_cal: object = None
    context_cals: tuple = ()


@dataclass(frozen=True)
class FloatEnc:
    bits: int
    encoding: str = "IEEE754"   # IEEE754 | IEEE754_1985 | MILSTD_1750A
    little: bool = False
    default_cal: object = None
    context_cals: tuple = ()


@dataclass(frozen=True)
class DynLen:
    ref: str
    calibrated: bool = True
    slope: Optional[int] = None       # None/None => no LinearAdjustment element
    intercept: Optional[int] = None


@dataclass(frozen=True)
class Lookup:
    entries: tuple              # ((criteria: tuple[Comparison,...], value: number), ...)


@dataclass(frozen=True)
class StrEnc:
    charset: str = "UTF-8"
    length: object = 8          # int (fixed bits) | DynLen | Lookup
    termination: Optional[str] = None   # hex string
    leading_size: Optional[int] = None  # bits of the size tag
    byte_order: Optional[str] = None    # only for generic UTF-16 / UTF-32


@dataclass(frozen=True)
class BinEnc:
    length: object = 8          # int | DynLen | Lookup


# ---- types, parameters, containers -----------------------------------------------------------------------
@dataclass(frozen=True)
class PType:
    name: str
    kind: str                   # integer float enumerated boolean string binary abstime reltime
    enc: object
    unit: Optional[str] = None
    enumeration: tuple = ()     # ((raw value, label), ...)
    epoch: Optional[str] = None
    offset_from: Optional[str] = None
    scale: Optional[float] = None
    offset: Optional[float] = None


@dataclass(frozen=True)
class Param:
    name: str
    type: str
    short: Optional[str] = None
    long: Optional[str] = None


@dataclass(frozen=True)
class Container:
    name: str
    entries: tuple              # (("p", param name) | ("c", container name), ...)
    base: Optional[str] = None
    criteria: object = None     # Criteria or None (BaseContainer without RestrictionCriteria)
    abstract: bool = False
    short: Optional[str] = None
    long: Optional[str] = None


@dataclass(frozen=True)
class Doc:
    types: tuple
    params: tuple
    containers: tuple
    root: str = "CCSDSPacket"
    system_name: Optional[str] = "VMON"
    date: Optional[str] = "2024-01-01T00:00:00"
    version: str = "1.0"
    validation: str = "Unknown"

    def _cached(self, key, build):
        # the dataclass is frozen; lookup maps are cached outside its fields (they do not take part in equality)
        cache = self.__dict__.get("_maps")
        if cache is None:
            cache = {}
            object.__setattr__(self, "_maps", cache)
        if key not in cache:
            cache[key] = build()
        return cache[key]

    def type_map(self):
        return self._cached("t", lambda: {t.name: t for t in self.types})

    def param_map(self):
        return self._cached("p", lambda: {p.name: p for p in self.params})

    def container_map(self):
        return self._cached("c", lambda: {c.name: c for c in self.containers})


KIND_TAG = {"integer": "IntegerParameterType", "float": "FloatParameterType", "enumerated": "EnumeratedParameterType",
            "boolean": "BooleanParameterType", "string": "StringParameterType", "binary": "BinaryParameterType",
            "abstime": "AbsoluteTimeParameterType", "reltime": "RelativeTimeParameterType"}
TAG_KIND = {v: k for k, v in KIND_TAG.items()}
