"""pytest plugin: run the repository's own tests with the shape-K contracts armed (C03 reads, C04 numeric raw values,
C08 calibrators). A contract that fires there is either too strict or a defect the tests do not assert.
Usage: pytest -p vmon.pytest_plugin ...   with VMON_PLUGIN_OUT=<json path>"""
import os

from vmon import contracts, core

_ctx = core.Ctx("PLUGIN", "quick", 0, 0, 1)


def pytest_configure(config):
    from vmon.props import c08
    contracts.arm_reads(_ctx)
    contracts.arm_numeric(_ctx)
    c08.arm_calibrate(_ctx)


def pytest_sessionfinish(session, exitstatus):
    out = os.environ.get("VMON_PLUGIN_OUT")
    _ctx.count("pytest.exitstatus", int(exitstatus))
    _ctx.count("pytest.tests_collected", int(getattr(session, "testscollected", 0)))
    if out:
        _ctx.dump(out)
