"""IR -> library objects through the public constructors ("assembled from objects")."""
from vmon import ir


def comparison(c: ir.Comparison):
    from space_packet_parser.xtce import comparisons as C
    return C.Comparison(c.value, c.ref, operator=c.op, use_calibrated_value=c.calibrated)


def condition(c: ir.Condition):
    from space_packet_parser.xtce import comparisons as C
    if c.right_param is not None:
        return C.Condition(c.left, c.op, right_param=c.right_param, left_use_calibrated_value=c.left_cal,
                           right_use_calibrated_value=c.right_cal)
    return C.Condition(c.left, c.op, right_value=c.right_value, left_use_calibrated_value=c.left_cal,
                       right_use_calibrated_value=False)


def _anded(x: ir.And):
    from space_packet_parser.xtce import comparisons as C
    return C.Anded([condition(i) for i in x.items if isinstance(i, ir.Condition)],
                   [_ored(i) for i in x.items if isinstance(i, ir.Or)])


def _ored(x: ir.Or):
    from space_packet_parser.xtce import comparisons as C
    return C.Ored([condition(i) for i in x.items if isinstance(i, ir.Condition)],
                  [_anded(i) for i in x.items if isinstance(i, ir.And)])


def boolexpr(bx: ir.BoolExpr):
    from space_packet_parser.xtce import comparisons as C
    e = bx.expr
    inner = condition(e) if isinstance(e, ir.Condition) else _anded(e) if isinstance(e, ir.And) else _ored(e)
    return C.BooleanExpression(inner)


def criteria(crit):
    """-> list of MatchCriteria"""
    if crit is None:
        return []
    if isinstance(crit, ir.BoolExpr):
        return [boolexpr(crit)]
    return [comparison(c) for c in crit]


def calibrator(cal):
    from space_packet_parser.xtce import calibrators as K
    if cal is None:
        return None
    if isinstance(cal, ir.Poly):
        return K.PolynomialCalibrator([K.PolynomialCoefficient(coefficient=c, exponent=e) for c, e in cal.terms])
    pts = [K.SplinePoint(raw=r, calibrated=c) for r, c in cal.points]
    if len(pts) > 2:
        pts = pts[1::2] + pts[0::2]     # hand the points over in a non-sorted order: order carries no meaning
    return K.SplineCalibrator(pts, order=cal.order, extrapolate=cal.extrapolate)


def context_cals(ccs):
    from space_packet_parser.xtce import calibrators as K
    if not ccs:
        return None
    return [K.ContextCalibrator(criteria(cc.criteria), calibrator(cc.cal)) for cc in ccs]


def adjuster(slope, intercept):
    if slope is None and intercept is None:
        return None
    m = 0 if slope is None else slope
    c = 0 if intercept is None else intercept

    def f(x):
        y = m * float(x) + c
        if not float(y).is_integer():
            raise ValueError("non-integral adjusted length")
        return int(y)
    return f


def lookup(lk: ir.Lookup):
    from space_packet_parser.xtce import comparisons as C
    return [C.DiscreteLookup([comparison(c) for c in crit], float(v)) for crit, v in lk.entries]


def encoding(enc):
    from space_packet_parser.xtce import encodings as E
    if isinstance(enc, ir.IntEnc):
        return E.IntegerDataEncoding(enc.bits, enc.encoding, byte_order=ir.LSB if enc.little else ir.MSB,
                                     default_calibrator=calibrator(enc.default_cal),
                                     context_calibrators=context_cals(enc.context_cals))
    if isinstance(enc, ir.FloatEnc):
        return E.FloatDataEncoding(enc.bits, encoding=enc.encoding, byte_order=ir.LSB if enc.little else ir.MSB,
                                   default_calibrator=calibrator(enc.default_cal),
                                   context_calibrators=context_cals(enc.context_cals))
    if isinstance(enc, ir.BinEnc):
        L = enc.length
        if isinstance(L, int):
            return E.BinaryDataEncoding(fixed_size_in_bits=L)
        if isinstance(L, ir.DynLen):
            return E.BinaryDataEncoding(size_reference_parameter=L.ref, use_calibrated_value=L.calibrated,
                                        linear_adjuster=adjuster(L.slope, L.intercept))
        return E.BinaryDataEncoding(size_discrete_lookup_list=lookup(L))
    if isinstance(enc, ir.StrEnc):
        kw = dict(encoding=enc.charset, termination_character=enc.termination, leading_length_size=enc.leading_size)
        if enc.byte_order is not None:
            kw["byte_order"] = enc.byte_order
        L = enc.length
        if isinstance(L, int):
            kw["fixed_raw_length"] = L
        elif isinstance(L, ir.DynLen):
            kw.update(dynamic_length_reference=L.ref, use_calibrated_value=L.calibrated,
                      length_linear_adjuster=adjuster(L.slope, L.intercept))
        else:
            kw["discrete_lookup_length"] = lookup(L)
        return E.StringDataEncoding(**kw)
    raise TypeError(enc)


def ptype(t: ir.PType):
    from space_packet_parser.xtce import calibrators as K
    from space_packet_parser.xtce import parameter_types as T
    enc = encoding(t.enc)
    if t.kind == "integer":
        return T.IntegerParameterType(t.name, enc, t.unit)
    if t.kind == "float":
        return T.FloatParameterType(t.name, enc, t.unit)
    if t.kind == "boolean":
        return T.BooleanParameterType(t.name, enc, t.unit)
    if t.kind == "string":
        return T.StringParameterType(t.name, enc, t.unit)
    if t.kind == "binary":
        return T.BinaryParameterType(t.name, enc, t.unit)
    if t.kind == "enumerated":
        if isinstance(t.enc, ir.StrEnc):
            from vmon import ref
            enum = {ref.encode_text(v, t.enc.charset, t.enc.byte_order): lab for v, lab in t.enumeration}
        else:
            enum = {v: lab for v, lab in t.enumeration}
        return T.EnumeratedParameterType(t.name, enc, enumeration=enum, unit=t.unit)
    cls = T.AbsoluteTimeParameterType if t.kind == "abstime" else T.RelativeTimeParameterType
    if t.scale is not None or t.offset is not None:
        # the documented object-level equivalent of Encoding@scale/@offset: a linear default calibrator
        coeffs = []
        if t.offset is not None:
            coeffs.append(K.PolynomialCoefficient(coefficient=float(t.offset), exponent=0))
        coeffs.append(K.PolynomialCoefficient(coefficient=float(t.scale) if t.scale is not None else 1, exponent=1))
        enc.default_calibrator = K.PolynomialCalibrator(coeffs)
    return cls(t.name, enc, unit=t.unit, epoch=t.epoch, offset_from=t.offset_from)


def definition(d: ir.Doc, ns=None, prefix="xtce", listed="all"):
    """Assemble an XtcePacketDefinition from objects (one object per name, inheritors back-populated as from_xtce does).
    listed: which containers are handed over in container_set - "all", or "top-level": only those that no other container nests
    (nested ones are then reachable through entry lists only), in reversed order"""
    from space_packet_parser.xtce import containers as SC
    from space_packet_parser.xtce import parameters as P
    from space_packet_parser.xtce.definitions import XtcePacketDefinition
    types = {t.name: ptype(t) for t in d.types}
    params = {p.name: P.Parameter(p.name, types[p.type], short_description=p.short, long_description=p.long)
              for p in d.params}
    cmap = d.container_map()
    built = {}

    def get(name):
        if name in built:
            return built[name]
        c = cmap[name]
        entries = [params[n] if k == "p" else get(n) for k, n in c.entries]
        sc = SC.SequenceContainer(name=c.name, entry_list=entries, short_description=c.short, long_description=c.long,
                                  base_container_name=c.base, restriction_criteria=criteria(c.criteria),
                                  abstract=c.abstract)
        built[name] = sc
        return sc

    for c in d.containers:
        get(c.name)
    for c in d.containers:
        if c.base is not None:
            built[c.base].inheritors.append(c.name)
    kw = {}
    if ns is not None:
        kw["ns"] = ns
    handed = [built[c.name] for c in d.containers]
    if listed == "top-level":
        nested = {n for c in d.containers for k, n in c.entries if k == "c"}
        handed = [built[c.name] for c in reversed(d.containers) if c.name not in nested]
    return XtcePacketDefinition(container_set=handed, xtce_ns_prefix=prefix,
                                root_container_name=d.root, space_system_name=d.system_name, date=d.date,
                                validation_status=d.validation, xtce_version=d.version, **kw)
