"""XTCE XML -> IR. My own reader over a plain lxml parse (no library code); total on the element set the library
models, ignoring exactly what the library ignores (AliasSet, AncillaryDataSet, maxSizeInBits, ...), filling in XTCE
defaults. `normalize` turns an IR into a canonical nested structure for meaning-level comparison
(empty == absent for descriptive text, operator spellings -> canonical relation, set order irrelevant,
entry-list order relevant)."""
import lxml.etree as ET

from vmon import ir


class ReadError(Exception):
    pass


def ln(el):
    return ET.QName(el).localname if isinstance(el.tag, str) else None


def kids(el, name=None):
    return [c for c in el if isinstance(c.tag, str) and (name is None or ln(c) == name)]


def kid(el, name):
    ks = kids(el, name)
    return ks[0] if ks else None


def path(el, *names):
    for n in names:
        if el is None:
            return None
        el = kid(el, n)
    return el


def tb(v, default):
    if v is None:
        return default
    return v.strip().lower() == "true"


def read_comparison(el):
    return ir.Comparison(el.get("parameterRef"), el.get("value"), el.get("comparisonOperator", "=="),
                         tb(el.get("useCalibratedValue"), True))


def read_condition(el):
    refs = kids(el, "ParameterInstanceRef")
    op = (kid(el, "ComparisonOperator").text or "").strip() if kid(el, "ComparisonOperator") is not None else None
    if len(refs) == 2:
        return ir.Condition(refs[0].get("parameterRef"), op, right_param=refs[1].get("parameterRef"),
                            left_cal=tb(refs[0].get("useCalibratedValue"), True), right_cal=tb(refs[1].get("useCalibratedValue"), True))
    v = kid(el, "Value")
    return ir.Condition(refs[0].get("parameterRef"), op, right_value=(v.text if v is not None else None),
                        left_cal=tb(refs[0].get("useCalibratedValue"), True), right_cal=False)


def read_bool(el):
    n = ln(el)
    if n == "Condition":
        return read_condition(el)
    items = tuple(read_bool(c) for c in kids(el) if ln(c) in ("Condition", "ANDedConditions", "ORedConditions"))
    return ir.And(items) if n == "ANDedConditions" else ir.Or(items)


def read_criteria(parent):
    """children of RestrictionCriteria / ContextMatch / DiscreteLookup"""
    if parent is None:
        return None
    cl = kid(parent, "ComparisonList")
    if cl is not None:
        return tuple(read_comparison(c) for c in kids(cl, "Comparison"))
    c = kid(parent, "Comparison")
    if c is not None:
        return (read_comparison(c),)
    be = kid(parent, "BooleanExpression")
    if be is not None:
        inner = [x for x in kids(be) if ln(x) in ("Condition", "ANDedConditions", "ORedConditions")]
        return ir.BoolExpr(read_bool(inner[0]))
    return None


def read_cal(el):
    n = ln(el)
    if n == "PolynomialCalibrator":
        return ir.Poly(tuple((float(t.get("coefficient")), int(t.get("exponent"))) for t in kids(el, "Term")))
    if n == "SplineCalibrator":
        # stable sort on the raw coordinate only: points sharing a raw value (a step) keep their document order
        pts = tuple(sorted(((float(p.get("raw")), float(p.get("calibrated"))) for p in kids(el, "SplinePoint")), key=lambda rc: rc[0]))
        return ir.Spline(pts, int(el.get("order", "0")), tb(el.get("extrapolate"), False))
    raise ReadError(f"unsupported calibrator {n}")


def read_numeric_cals(el):
    d = None
    dc = kid(el, "DefaultCalibrator")
    if dc is not None and kids(dc):
        d = read_cal(kids(dc)[0])
    ccs = []
    lst = kid(el, "ContextCalibratorList")
    if lst is not None:
        for cc in kids(lst, "ContextCalibrator"):
            crit = read_criteria(kid(cc, "ContextMatch"))
            cal = read_cal(kids(kid(cc, "Calibrator"))[0])
            ccs.append(ir.ContextCal(crit, cal))
    return d, tuple(ccs)


def read_dyn(el):
    r = kid(el, "ParameterInstanceRef")
    la = kid(el, "LinearAdjustment")
    slope = intercept = None
    if la is not None:
        slope = int(la.get("slope", "0"))
        intercept = int(la.get("intercept", "0"))
    return ir.DynLen(r.get("parameterRef"), tb(r.get("useCalibratedValue"), True), slope, intercept)


def num(s):
    f = float(s)
    return int(f) if f.is_integer() and abs(f) < 2 ** 53 else f


def read_lookup(el):
    return ir.Lookup(tuple((read_criteria(d), num(d.get("value"))) for d in kids(el, "DiscreteLookup")))


def read_encoding(parent):
    """first data encoding found below `parent` (any depth, as the library searches)"""
    for el in parent.iter():
        n = ln(el)
        if n == "IntegerDataEncoding":
            d, c = read_numeric_cals(el)
            return ir.IntEnc(int(el.get("sizeInBits")), el.get("encoding", "unsigned"), el.get("byteOrder", ir.MSB) == ir.LSB, d, c)
        if n == "FloatDataEncoding":
            d, c = read_numeric_cals(el)
            return ir.FloatEnc(int(el.get("sizeInBits")), el.get("encoding", "IEEE754"), el.get("byteOrder", ir.MSB) == ir.LSB, d, c)
        if n == "BinaryDataEncoding":
            sib = kid(el, "SizeInBits")
            fv, dv, dl = kid(sib, "FixedValue"), kid(sib, "DynamicValue"), kid(sib, "DiscreteLookupList")
            if fv is not None:
                return ir.BinEnc(int((fv.text or "").strip()))
            if dv is not None:
                return ir.BinEnc(read_dyn(dv))
            if dl is not None:
                return ir.BinEnc(read_lookup(dl))
            raise ReadError("BinaryDataEncoding without a size")
        if n == "StringDataEncoding":
            cs = el.get("encoding", "UTF-8")
            size = kid(el, "SizeInBits")
            var = kid(el, "Variable")
            holder = size if size is not None else var
            if size is not None:
                L = int((path(size, "Fixed", "FixedValue").text or "").strip())
            else:
                dv, dl = kid(var, "DynamicValue"), kid(var, "DiscreteLookupList")
                L = read_dyn(dv) if dv is not None else read_lookup(dl)
            tc = kid(holder, "TerminationChar")
            ls = kid(holder, "LeadingSize")
            return ir.StrEnc(cs, L, (tc.text or "").strip().lower() if tc is not None else None,
                             int(ls.get("sizeInBitsOfSizeTag")) if ls is not None else None,
                             el.get("byteOrder") if cs in ("UTF-16", "UTF-32") else None)
    raise ReadError("no data encoding")


def read_type(el):
    kind = ir.TAG_KIND.get(ln(el))
    if kind is None:
        raise ReadError(f"unsupported parameter type {ln(el)}")
    enc = read_encoding(el)
    if kind in ("abstime", "reltime"):
        e = kid(el, "Encoding")
        unit = e.get("units") if e is not None else None
        scale = float(e.get("scale")) if e is not None and e.get("scale") is not None else None
        offset = float(e.get("offset")) if e is not None and e.get("offset") is not None else None
        ep = path(el, "ReferenceTime", "Epoch")
        of = path(el, "ReferenceTime", "OffsetFrom")
        return ir.PType(el.get("name"), kind, enc, unit, (), ep.text if ep is not None else None,
                        of.get("parameterRef") if of is not None else None, scale, offset)
    units = [u.text for u in kids(kid(el, "UnitSet"), "Unit")] if kid(el, "UnitSet") is not None else []
    unit = " ".join(u or "" for u in units) if units else None
    enum = ()
    if kind == "enumerated":
        lst = kid(el, "EnumerationList")
        vals = []
        for e in kids(lst, "Enumeration"):
            v = e.get("value")
            if isinstance(enc, ir.IntEnc):
                v = int(v)
            elif isinstance(enc, ir.FloatEnc):
                v = float(v)
            vals.append((v, e.get("label")))
        enum = tuple(vals)
    return ir.PType(el.get("name"), kind, enc, unit, enum)


def read_container(el):
    entries = []
    for e in kids(kid(el, "EntryList")):
        if ln(e) == "ParameterRefEntry":
            entries.append(("p", e.get("parameterRef")))
        elif ln(e) == "ContainerRefEntry":
            entries.append(("c", e.get("containerRef")))
    bc = kid(el, "BaseContainer")
    base = bc.get("containerRef") if bc is not None else None
    crit = read_criteria(kid(bc, "RestrictionCriteria")) if bc is not None else None
    ld = kid(el, "LongDescription")
    return ir.Container(el.get("name"), tuple(entries), base, crit, tb(el.get("abstract"), False), el.get("shortDescription"),
                        ld.text if ld is not None else None)


def read_xml(data: bytes) -> ir.Doc:
    root = ET.fromstring(data)
    tm = kid(root, "TelemetryMetaData")
    types = tuple(read_type(t) for t in kids(kid(tm, "ParameterTypeSet")))
    params = []
    for p in kids(kid(tm, "ParameterSet"), "Parameter"):
        ld = kid(p, "LongDescription")
        params.append(ir.Param(p.get("name"), p.get("parameterTypeRef"), p.get("shortDescription"), ld.text if ld is not None else None))
    conts = tuple(read_container(c) for c in kids(kid(tm, "ContainerSet"), "SequenceContainer"))
    h = kid(root, "Header")
    return ir.Doc(types, tuple(params), conts, "CCSDSPacket", root.get("name"),
                  h.get("date") if h is not None else None, h.get("version", "1.0") if h is not None else "1.0",
                  h.get("validationStatus", "Unknown") if h is not None else "Unknown")


def element_namespaces(data: bytes):
    """set of namespace URIs (None = no namespace) of all elements, by a plain parser"""
    root = ET.fromstring(data)
    return {ET.QName(e).namespace for e in root.iter() if isinstance(e.tag, str)}


# ---------------------------------------------------------------------------------------------------------------------
# canonical form for meaning-level comparison
# ---------------------------------------------------------------------------------------------------------------------
def _txt(s):
    return None if s is None or s == "" else s


def n_crit(c):
    if c is None:
        return None
    if isinstance(c, ir.BoolExpr):
        return ("bool", n_bool(c.expr))
    return ("list", tuple((x.ref, ir.OPS.get(x.op, x.op), x.value, x.calibrated) for x in c))


def n_bool(x):
    if isinstance(x, ir.Condition):
        return ("cond", x.left, ir.OPS.get(x.op, x.op), x.right_param, x.right_value, x.left_cal,
                x.right_cal if x.right_param is not None else None)
    tag = "and" if isinstance(x, ir.And) else "or"
    # conditions and nested groups commute within a group: canonical order = conditions first (as the library's
    # model stores them), each class in document order
    conds = [n_bool(i) for i in x.items if isinstance(i, ir.Condition)]
    groups = [n_bool(i) for i in x.items if not isinstance(i, ir.Condition)]
    return (tag, tuple(conds), tuple(groups))


def n_cal(c):
    if c is None:
        return None
    if isinstance(c, ir.Poly):
        return ("poly", tuple(sorted((float(a), int(e)) for a, e in c.terms)))
    return ("spline", tuple(sorted(((float(r), float(v)) for r, v in c.points), key=lambda rc: rc[0])), c.order, c.extrapolate)


def n_len(L):
    if isinstance(L, int):
        return ("fixed", L)
    if isinstance(L, ir.DynLen):
        adj = None if (L.slope is None and L.intercept is None) else (L.slope or 0, L.intercept or 0)
        return ("dyn", L.ref, L.calibrated, adj)
    return ("lookup", tuple((n_crit(tuple(c)), float(v)) for c, v in L.entries))


def n_enc(e):
    if isinstance(e, ir.IntEnc):
        enc = "twosComplement" if e.encoding in ("signed", "twosCompliment") else e.encoding
        return ("int", e.bits, enc, e.little, n_cal(e.default_cal), tuple((n_crit(c.criteria), n_cal(c.cal)) for c in e.context_cals))
    if isinstance(e, ir.FloatEnc):
        enc = "IEEE754" if e.encoding in ("IEEE754_1985", "IEEE-754") else "MILSTD_1750A" if e.encoding == "MIL-1750A" else e.encoding
        return ("float", e.bits, enc, e.little, n_cal(e.default_cal), tuple((n_crit(c.criteria), n_cal(c.cal)) for c in e.context_cals))
    if isinstance(e, ir.BinEnc):
        return ("bin", n_len(e.length))
    bo = e.byte_order if e.charset in ("UTF-16", "UTF-32") else None
    return ("str", e.charset, bo, n_len(e.length), (e.termination or "").lower() or None, e.leading_size)


def n_type(t: ir.PType):
    enc = n_enc(t.enc)
    if t.kind in ("abstime", "reltime"):
        if (t.scale is not None or t.offset is not None) and enc[0] in ("int", "float"):
            # Encoding@scale/@offset ARE the time type's default calibrator: they override whatever DefaultCalibrator
            # the inner data encoding carries (the library writes both, redundantly)
            enc = enc[:4] + (None,) + enc[5:]
        # scale/offset are the time type's linear calibrator
        return (t.kind, enc, _txt(t.unit), _txt(t.epoch), _txt(t.offset_from),
                None if t.scale is None and t.offset is None else (1.0 if t.scale is None else float(t.scale), 0.0 if t.offset is None else float(t.offset)))
    return (t.kind, enc, _txt(t.unit), tuple(sorted(((repr(v), lab) for v, lab in t.enumeration))))


def normalize(d: ir.Doc, only_reachable=True, strict_signed=False):
    """canonical structure. only_reachable: keep only parameters/types used by some container (the library's object
    model is built from the containers, so an unreferenced definition has no representation)."""
    cm = {c.name: c for c in d.containers}
    used_params = set()
    for c in d.containers:
        for k, n in c.entries:
            if k == "p":
                used_params.add(n)
    pm = {p.name: p for p in d.params}
    tmap = {t.name: t for t in d.types}
    params = {n: (pm[n].type, _txt(pm[n].short), _txt(pm[n].long)) for n in pm if (n in used_params or not only_reachable)}
    used_types = {v[0] for v in params.values()}
    types = {n: n_type(t) for n, t in tmap.items() if (n in used_types or not only_reachable)}
    conts = {c.name: (tuple(c.entries), c.base, n_crit(c.criteria) if c.base else None, c.abstract, _txt(c.short), _txt(c.long))
             for c in d.containers}
    return {"types": types, "params": params, "containers": conts, "system": _txt(d.system_name), "date": d.date}


def same_meaning(src, written):
    """canonical(source) vs canonical(written); an absent header date in the source is not compared (the writer fills in now())"""
    a, b = dict(src), dict(written)
    if a.get("date") is None:
        a.pop("date", None)
        b.pop("date", None)
    return a, b


def diff(a, b, path=""):
    """first difference between two canonical structures -> path string (mechanism-level: names replaced by kinds)"""
    if type(a) is not type(b):
        return path + f"<{type(a).__name__}!={type(b).__name__}>"
    if isinstance(a, dict):
        for k in a:
            if k not in b:
                return f"{path}/missing"
        for k in b:
            if k not in a:
                return f"{path}/extra"
        for k in a:
            if a[k] != b[k]:
                sub = k if path == "" else "*"
                return diff(a[k], b[k], f"{path}/{sub}")
        return None
    if isinstance(a, tuple):
        if len(a) != len(b):
            return path + f"/len"
        for i, (x, y) in enumerate(zip(a, b)):
            if x != y:
                head = a[0] if a and isinstance(a[0], str) and i > 0 else ""
                return diff(x, y, f"{path}/{head}[{i}]")
        return None
    return None if a == b else path + "/value"
