"""Independent bit/number oracles. Deliberately naive: bits are Python str of '0'/'1'.

Shares no code with space_packet_parser. Cross-checked against struct / int.from_bytes by selftest().
"""
import math
import struct
from fractions import Fraction


def bitstr(b) -> str:
    return "".join(format(x, "08b") for x in bytes(b))


def u(bits: str) -> int:
    return int(bits, 2) if bits else 0


def field(b, p, n) -> str:
    """The n bits starting at bit p (bit 0 = MSB of byte 0)."""
    s = bitstr(b)
    assert 0 <= p and n >= 0 and p + n <= len(s)
    return s[p:p + n]


def bits_to_bytes_left_padded(bits: str) -> bytes:
    """value right-aligned in ceil(n/8) bytes"""
    n = len(bits)
    nb = (n + 7) // 8
    return u(bits).to_bytes(nb, "big") if nb else b""


def bits_to_bytes_right_padded(bits: str) -> bytes:
    n = len(bits)
    nb = (n + 7) // 8
    padded = bits + "0" * (nb * 8 - n)
    return bytes(int(padded[i:i + 8], 2) for i in range(0, nb * 8, 8))


def to_bits(value: int, n: int) -> str:
    assert 0 <= value < (1 << n) if n else value == 0
    return format(value, f"0{n}b") if n else ""


def reverse_bytes(bits: str) -> str:
    assert len(bits) % 8 == 0
    chunks = [bits[i:i + 8] for i in range(0, len(bits), 8)]
    return "".join(reversed(chunks))


def signed(bits: str) -> int:
    """two's complement of the whole field"""
    if not bits:
        return 0
    v = u(bits)
    return v - (1 << len(bits)) if bits[0] == "1" else v


def int_field(bits: str, encoding: str, little: bool) -> int:
    if little:
        bits = reverse_bytes(bits)
    if encoding == "unsigned":
        return u(bits)
    return signed(bits)


# ---- IEEE 754 binary16/32/64, explicit --------------------------------------------------------
_IEEE = {16: (5, 10), 32: (8, 23), 64: (11, 52)}


def ieee(bits: str) -> float:
    w = len(bits)
    ebits, mbits = _IEEE[w]
    sign = -1.0 if bits[0] == "1" else 1.0
    e = u(bits[1:1 + ebits])
    m = u(bits[1 + ebits:])
    bias = (1 << (ebits - 1)) - 1
    if e == (1 << ebits) - 1:
        if m == 0:
            return sign * math.inf
        return math.nan
    if e == 0:
        # subnormal (or zero): m * 2^(1-bias-mbits)
        return sign * math.ldexp(float(m), 1 - bias - mbits)
    return sign * math.ldexp(float((1 << mbits) | m), e - bias - mbits)


def float_field(bits: str, little: bool) -> float:
    if little:
        bits = reverse_bytes(bits)
    return ieee(bits)


def mil1750a(bits: str, little: bool) -> float:
    """MIL-STD-1750A 32-bit: 24-bit two's complement mantissa (binary point after the sign bit),
    8-bit two's complement exponent. value = mantissa/2^23 * 2^exp, exactly representable in a double."""
    assert len(bits) == 32
    if little:
        bits = reverse_bytes(bits)
    mant = signed(bits[:24])
    exp = signed(bits[24:])
    val = Fraction(mant, 1 << 23) * (Fraction(2) ** exp)
    f = float(val)
    assert Fraction(f) == val
    return f


def same_float(a, b) -> bool:
    """bit-level float equality: NaN == NaN, -0.0 != +0.0"""
    a = float(a)
    b = float(b)
    if a != a or b != b:
        return a != a and b != b
    if a == 0.0 and b == 0.0:
        return math.copysign(1.0, a) == math.copysign(1.0, b)
    return a == b


def selftest():
    """Cross-check the oracles against struct/int.from_bytes. Raises AssertionError on mismatch."""
    import random
    rng = random.Random(12345)
    for w, fmt in ((16, "e"), (32, "f"), (64, "d")):
        pats = [0, 1, (1 << w) - 1, 1 << (w - 1), (1 << (w - 1)) | 1]
        ebits, mbits = _IEEE[w]
        for e in (0, 1, (1 << ebits) - 2, (1 << ebits) - 1):
            for m in (0, 1, (1 << mbits) - 1):
                for s in (0, 1):
                    pats.append((s << (w - 1)) | (e << mbits) | m)
        pats += [rng.getrandbits(w) for _ in range(3000)]
        for p in pats:
            raw = p.to_bytes(w // 8, "big")
            assert same_float(ieee(to_bits(p, w)), struct.unpack(">" + fmt, raw)[0]), (w, p)
            assert same_float(float_field(bitstr(raw), True), struct.unpack("<" + fmt, raw)[0]), (w, p)
    for _ in range(2000):
        n = rng.randrange(1, 12)
        raw = bytes(rng.getrandbits(8) for _ in range(n))
        assert u(bitstr(raw)) == int.from_bytes(raw, "big")
        assert int_field(bitstr(raw), "unsigned", True) == int.from_bytes(raw, "little")
        assert int_field(bitstr(raw), "twosComplement", False) == int.from_bytes(raw, "big", signed=True)
        assert int_field(bitstr(raw), "twosComplement", True) == int.from_bytes(raw, "little", signed=True)
        assert bits_to_bytes_left_padded(bitstr(raw)) == raw
        assert bits_to_bytes_right_padded(bitstr(raw)) == raw
    assert bits_to_bytes_left_padded("101") == b"\x05"
    assert bits_to_bytes_right_padded("101") == b"\xa0"
    assert bits_to_bytes_left_padded("") == b""
    # 1750A documented examples (MIL-STD-1750A table): 0x7FFFFF7F = 0.9999998 x 2^127, 0x40000000 = 0.5,
    # 0x80000000 = -1.0, 0x50000003 = 5.0? (0.625*2^3), 0x9FFFFF04 -> -12.000001..., 0x4000007F
    assert mil1750a(to_bits(0x40000000, 32), False) == 0.5
    assert mil1750a(to_bits(0x80000000, 32), False) == -1.0
    assert mil1750a(to_bits(0x50000003, 32), False) == 5.0
    assert mil1750a(to_bits(0x40000001, 32), False) == 1.0
    assert mil1750a(to_bits(0x400000FF, 32), False) == 0.25
    assert mil1750a(to_bits(0x7FFFFF7F, 32), False) == (1 - 2.0 ** -23) * 2.0 ** 127
    return True
