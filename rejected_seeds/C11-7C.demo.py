"""C11 demo C: a length-mismatched packet (here: shorter than its container) must not change the result for any
other packet of the stream. It is yielded with a warning (parse_bad_pkts=True) or skipped (False), and all the
other packets come out, in stream order, exactly as when they are parsed on their own."""
import io
import itertools
import sys
import warnings

from space_packet_parser import packets
from space_packet_parser.exceptions import UnrecognizedPacketTypeError
from space_packet_parser.xtce import definitions

XTCE = b"""<?xml version='1.0' encoding='UTF-8'?>
<xtce:SpaceSystem xmlns:xtce="http://www.omg.org/space/xtce" name="T">
<xtce:TelemetryMetaData>
<xtce:ParameterTypeSet>
 <xtce:IntegerParameterType name="U1"><xtce:IntegerDataEncoding sizeInBits="1" encoding="unsigned"/></xtce:IntegerParameterType>
 <xtce:IntegerParameterType name="U2"><xtce:IntegerDataEncoding sizeInBits="2" encoding="unsigned"/></xtce:IntegerParameterType>
 <xtce:IntegerParameterType name="U3"><xtce:IntegerDataEncoding sizeInBits="3" encoding="unsigned"/></xtce:IntegerParameterType>
 <xtce:IntegerParameterType name="U8"><xtce:IntegerDataEncoding sizeInBits="8" encoding="unsigned"/></xtce:IntegerParameterType>
 <xtce:IntegerParameterType name="U11"><xtce:IntegerDataEncoding sizeInBits="11" encoding="unsigned"/></xtce:IntegerParameterType>
 <xtce:IntegerParameterType name="U14"><xtce:IntegerDataEncoding sizeInBits="14" encoding="unsigned"/></xtce:IntegerParameterType>
 <xtce:IntegerParameterType name="U16"><xtce:IntegerDataEncoding sizeInBits="16" encoding="unsigned"/></xtce:IntegerParameterType>
</xtce:ParameterTypeSet>
<xtce:ParameterSet>
 <xtce:Parameter name="VERSION" parameterTypeRef="U3"/>
 <xtce:Parameter name="TYPE" parameterTypeRef="U1"/>
 <xtce:Parameter name="SEC_HDR_FLG" parameterTypeRef="U1"/>
 <xtce:Parameter name="PKT_APID" parameterTypeRef="U11"/>
 <xtce:Parameter name="SEQ_FLGS" parameterTypeRef="U2"/>
 <xtce:Parameter name="SRC_SEQ_CTR" parameterTypeRef="U14"/>
 <xtce:Parameter name="PKT_LEN" parameterTypeRef="U16"/>
 <xtce:Parameter name="A1" parameterTypeRef="U8"/>
 <xtce:Parameter name="A2" parameterTypeRef="U16"/>
 <xtce:Parameter name="B1" parameterTypeRef="U16"/>
</xtce:ParameterSet>
<xtce:ContainerSet>
 <xtce:SequenceContainer name="CCSDSPacket" abstract="true">
  <xtce:EntryList>
   <xtce:ParameterRefEntry parameterRef="VERSION"/><xtce:ParameterRefEntry parameterRef="TYPE"/>
   <xtce:ParameterRefEntry parameterRef="SEC_HDR_FLG"/><xtce:ParameterRefEntry parameterRef="PKT_APID"/>
   <xtce:ParameterRefEntry parameterRef="SEQ_FLGS"/><xtce:ParameterRefEntry parameterRef="SRC_SEQ_CTR"/>
   <xtce:ParameterRefEntry parameterRef="PKT_LEN"/>
  </xtce:EntryList>
 </xtce:SequenceContainer>
 <xtce:SequenceContainer name="A">
  <xtce:EntryList><xtce:ParameterRefEntry parameterRef="A1"/><xtce:ParameterRefEntry parameterRef="A2"/></xtce:EntryList>
  <xtce:BaseContainer containerRef="CCSDSPacket"><xtce:RestrictionCriteria>
   <xtce:Comparison parameterRef="PKT_APID" value="10" useCalibratedValue="false"/>
  </xtce:RestrictionCriteria></xtce:BaseContainer>
 </xtce:SequenceContainer>
 <xtce:SequenceContainer name="B">
  <xtce:EntryList><xtce:ParameterRefEntry parameterRef="B1"/></xtce:EntryList>
  <xtce:BaseContainer containerRef="CCSDSPacket"><xtce:RestrictionCriteria>
   <xtce:Comparison parameterRef="PKT_APID" value="20" useCalibratedValue="false"/>
  </xtce:RestrictionCriteria></xtce:BaseContainer>
 </xtce:SequenceContainer>
</xtce:ContainerSet>
</xtce:TelemetryMetaData>
</xtce:SpaceSystem>
"""


def describe(item):
    """Comparable description of one yielded item"""
    if isinstance(item, UnrecognizedPacketTypeError):
        return ("error", bytes(item.partial_data.raw_data), tuple(item.partial_data.items()))
    if isinstance(item, packets.CCSDSPacket):
        return ("packet", bytes(item.raw_data), tuple(item.items()))
    return ("raw", bytes(item), tuple(item.header_values))


def run(definition, data, **options):
    with warnings.catch_warnings():
        warnings.simplefilter("ignore")
        return [describe(item) for item in definition.packet_generator(io.BytesIO(data), **options)]


def main():
    definition = definitions.XtcePacketDefinition.from_xtce(io.BytesIO(XTCE))
    mk = packets.create_ccsds_packet
    short = mk(b"\x03\x04", apid=10, sequence_count=1)         # A needs 3 bytes (A1: 8 bits, A2: 16 bits), has only 2
    others = [
        mk(b"\x01\x00\x02", apid=10, sequence_count=0),          # good A
        mk(b"\x00\x05", apid=20, sequence_count=0),              # good B
        mk(b"\x00\x00\x00", apid=30, sequence_count=0),          # not in the definition
        mk(b"\x06\x00\x07", apid=10, sequence_count=2),          # good A
    ]
    stream = [others[0], short] + others[1:]
    failures = []
    for parse_bad, report, headers_only in itertools.product((True, False), repeat=3):
        options = dict(parse_bad_pkts=parse_bad, yield_unrecognized_packet_errors=report,
                       ccsds_headers_only=headers_only)
        # The packets other than the short one, each parsed on its own
        expected = [d for pkt in others for d in run(definition, bytes(pkt), **options)]
        try:
            actual = run(definition, b"".join(stream), **options)
        except Exception as exc:  # noqa: BLE001
            failures.append(f"{options}: the generator died with {exc!r} instead of yielding the other packets")
            continue
        # Remove what the stream yielded for the short packet itself (a packet if bad packets are parsed or if only
        # headers are requested, nothing otherwise)
        n_short = [a[1] for a in actual].count(bytes(short))
        if n_short != (1 if (parse_bad or headers_only) else 0):
            failures.append(f"{options}: the short packet was yielded {n_short} times")
        actual_others = [a for a in actual if a[1] != bytes(short)]
        if actual_others != expected:
            failures.append(f"{options}: the other packets of the stream came out as\n   {actual_others}\n"
                            f"   but parsed on their own they yield\n   {expected}")
    if failures:
        print("FAIL: a too short packet changed the result for the other packets of the stream")
        print("\n".join(failures))
        return 1
    print("OK")
    return 0


if __name__ == "__main__":
    sys.exit(main())
