#!/usr/bin/env python3
"""Regenerate /verif/MANIFEST.json from the table below (kept in one place so it is always valid)."""
import json
import os

V = os.path.dirname(os.path.dirname(os.path.abspath(__file__)))

# property -> (category, technique, level text, level note, design ref)
CHECKS = {
}

NOT_BUILT_REASON = "check not built yet in this work-in-progress commit (planned, see DESIGN.md section 4)"


def load_table():
    with open(os.path.join(V, "tools", "checks.json")) as f:
        return json.load(f)


def main():
    table = load_table()
    props = [json.loads(l)["id"] for l in open(os.path.join(V, "properties.jsonl")) if l.strip()]
    checks, na = [], []
    for pid in props:
        t = table.get(pid)
        if not t or not t.get("claimed"):
            na.append({"property_id": pid, "reason": (t or {}).get("reason", NOT_BUILT_REASON)})
            continue
        checks.append({
            "property_id": pid,
            "quick_cmd": f"./check {pid} quick",
            "thorough_cmd": f"./check {pid} thorough",
            "evidence_file": f"/verif/evidence/{pid}.json",
            "replay_cmd_template": f"./check {pid} --replay {{path}}",
            "engine": "vmon",
            "level_claimed": {"category": t["category"], "text": t["text"], "design_ref": t["design_ref"]},
            "level_note": t["note"],
            "technique": t["technique"],
        })
    manifest = {
        "version": 1,
        "setup_cmd": "./check setup",
        "hooks": {
            "guard": "SPP_VERIF",
            "enable": "no source hooks are needed: every monitor is attached from the harness (icontract "
                      "postconditions re-bound onto the real functions, wrapped module attributes, scripted "
                      "sources, generator frame inspection); ./check exports SPP_VERIF=1 for uniformity",
            "baseline_off_cmd": "cd /repo && /venv/bin/python -m pytest -ra -q -p no:cacheprovider --timeout=900 "
                                "--continue-on-collection-errors",
            "source_commits": [],
            "add_only": True,
        },
        "engines": [{
            "name": "vmon",
            "path": "/verif/vmon",
            "serves_properties": [c["property_id"] for c in checks],
            "kind_free_text": "runtime monitoring: icontract postconditions on the real functions, boundary trace "
                              "recorders with offline history checkers, executable reference models, state "
                              "invariants at quiescent points, fault/schedule injection; sharded over worker "
                              "subprocesses",
        }],
        "checks": checks,
        "not_applicable": na,
        "notes": "Exit 0 held / 1 VIOLATION / 2 INCONCLUSIVE (deciding monitor never reached; never on the unchanged "
                 "tree). Known findings: /verif/known_findings.json. VERIF_SEED, VERIF_TIER, VERIF_REPO, VERIF_JOBS "
                 "are honoured.",
    }
    with open(os.path.join(V, "MANIFEST.json"), "w") as f:
        json.dump(manifest, f, indent=1)
    try:
        import jsonschema
        jsonschema.validate(manifest, json.load(open("/root/.vp/MANIFEST.schema.json")))
        print("MANIFEST.json valid;", len(checks), "claimed,", len(na), "not_applicable")
    except ImportError:
        print("written (jsonschema unavailable, not validated)")


if __name__ == "__main__":
    main()
