#!/bin/bash
# tools/sweep.sh <tier> <seed>... : run every check at the given tier for each seed; evidence goes to a scratch dir
# (never to /verif/evidence). Prints one line per (check, seed) and the verdict lines of anything that is not rc=0.
HERE="$(cd "$(dirname "${BASH_SOURCE[0]}")/.." && pwd)"
TIER="$1"; shift
OUT=$(mktemp -d /tmp/sweep-XXXXXX)
fail=0
for seed in "$@"; do
  for i in $(seq -w 1 20); do
    c="C$i"
    t0=$(date +%s)
    out=$(cd "$HERE" && VERIF_SEED=$seed VERIF_OUT="$OUT" ./check "$c" "$TIER" 2>&1); rc=$?
    t1=$(date +%s)
    echo "$c seed=$seed rc=$rc $((t1-t0))s $(echo "$out" | tail -1 | cut -c1-160)"
    if [ $rc -ne 0 ]; then fail=1; echo "$out" | grep -E "VIOLATION|INCONCLUSIVE|key=" | head -8 | cut -c1-400; fi
  done
done
rm -rf "$OUT"
exit $fail
