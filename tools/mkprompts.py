#!/usr/bin/env python3
"""tools/mkprompts.py <dir> : write one seeding prompt per property into <dir>/Cxx.prompt.txt. A prompt holds only the property's text
(from properties.jsonl) and one-sentence summaries of the changes already kept for it - nothing else from /verif."""
import glob, json, os, sys
HERE = os.path.dirname(os.path.dirname(os.path.abspath(__file__)))
out = sys.argv[1]
os.makedirs(out, exist_ok=True)
T = open(os.path.join(HERE, "tools", "prompt_template.txt")).read()
for line in open(os.path.join(HERE, "properties.jsonl")):
    d = json.loads(line)
    pid = d["id"]
    used = ""
    for m in sorted(glob.glob(os.path.join(HERE, "seeded", pid + "-*", "meta.json"))) + sorted(glob.glob(os.path.join(HERE, "seeded", pid, "*", "meta.json"))):
        used += "  - " + " ".join(json.load(open(m))["summary"].split()) + "\n"
    s = (T.replace("@WT@", f"{out}/{pid}").replace("@ID@", pid).replace("@TITLE@", d["title"]).replace("@STATEMENT@", d["statement"])
          .replace("@QUANT@", d["quantifier"]["text"]).replace("@ANCHORS@", ", ".join(d["anchors"]["files"])).replace("@USED@", used))
    open(f"{out}/{pid}.prompt.txt", "w").write(s)
print("wrote 20 prompts to", out)
