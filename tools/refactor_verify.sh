#!/bin/bash
# tools/refactor_verify.sh <dir with patch.diff> [checks...]: apply a BEHAVIOUR-PRESERVING change to a scratch copy of /repo and
# run the quick checks: every one must exit 0 (no VIOLATION, no INCONCLUSIVE). Prints whatever is not rc=0.
HERE="$(cd "$(dirname "${BASH_SOURCE[0]}")/.." && pwd)"
SD="$(readlink -f "$1")"; shift
CHECKS="$*"; [ -z "$CHECKS" ] && CHECKS=$(seq -f "C%02g" 1 20)
D=$(mktemp -d /tmp/refv-XXXXXX); mkdir -p "$D/repo" "$D/out"
rsync -a --exclude .git --exclude docs --exclude examples /repo/ "$D/repo/"
if ! (cd "$D/repo" && patch -p1 -s < "$SD/patch.diff"); then echo "PATCH FAILED"; rm -rf "$D"; exit 3; fi
bad=""
for c in $CHECKS; do
  out=$(cd "$HERE" && VERIF_REPO="$D/repo" VERIF_OUT="$D/out" ./check "$c" quick 2>&1); rc=$?
  if [ $rc -ne 0 ]; then bad="$bad $c(rc=$rc)"; echo "== $c rc=$rc"; echo "$out" | grep -E "VIOLATION|INCONCLUSIVE|key=" | head -4 | cut -c1-400; fi
done
rm -rf "$D"
echo "REFACTOR-SUMMARY $(basename $(dirname $SD))/$(basename $SD) alarms:${bad:- NONE}"
