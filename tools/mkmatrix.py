#!/usr/bin/env python3
"""tools/mkmatrix.py: regenerate the seeded-change catch matrix in DESIGN.md (section 12) from seeded/*/meta.json."""
import glob, json, os, re
HERE = os.path.dirname(os.path.dirname(os.path.abspath(__file__)))


def cell(s, n):
    s = " ".join(str(s).split()).replace("|", "/")
    return s[:n]


rows = []
for d in sorted(glob.glob(os.path.join(HERE, "seeded", "*"))):
    m = json.load(open(os.path.join(d, "meta.json")))
    v = m.get("verified", {})
    if v.get("missed_at_first"):
        caught = "first missed -> %s after: %s" % (" ".join(v.get("caught_by_quick_after_strengthening", [])), cell(v.get("strengthening", ""), 400))
    else:
        caught = " ".join(v.get("caught_by_quick", []))
    rows.append("| %s | %s | %s | %s |" % (os.path.basename(d), cell(m.get("summary", ""), 200), cell(m.get("needs_to_manifest", ""), 170), caught))
table = "| seed | change (one line) | needs to manifest | caught by quick check |\n|---|---|---|---|\n" + "\n".join(rows) + "\n"
p = os.path.join(HERE, "DESIGN.md")
s = open(p).read()
s2 = re.sub(r"\| seed \| change \(one line\) \| needs to manifest \| caught by quick check \|\n\|---\|---\|---\|---\|\n(?:\|.*\n)+", lambda _: table, s, count=1)
open(p, "w").write(s2)
print(len(rows), "rows;", sum("first missed" in r for r in rows), "first missed")
