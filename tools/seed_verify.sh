#!/bin/bash
# tools/seed_verify.sh <seed-dir containing patch.diff demo.py meta.json> [check ids... | all]
# 1. demo passes on the unchanged tree, 2. patch applies to a scratch copy of /repo (never /repo itself),
# 3. the repository's test suite passes with the patch, 4. demo fails with the patch,
# 5. runs the given quick checks against the patched copy and reports which ones fire.
HERE="$(cd "$(dirname "${BASH_SOURCE[0]}")/.." && pwd)"
set -u
SD="$(readlink -f "$1")"; shift
CHECKS="$*"; [ -z "$CHECKS" ] && CHECKS="all"
[ "$CHECKS" = "all" ] && CHECKS=$(seq -f "C%02g" 1 20)
D=$(mktemp -d /tmp/seedv-XXXXXX); mkdir -p "$D/repo" "$D/out" "$D/orig"
rsync -a --exclude .git --exclude docs --exclude examples /repo/ "$D/repo/"
rsync -a --exclude .git --exclude docs --exclude examples /repo/ "$D/orig/"
echo "## demo on original"; (cd "$D/orig" && PYTHONPATH="$D/orig" timeout 300 /venv/bin/python "$SD/demo.py" >"$D/demo_orig.log" 2>&1); r0=$?; echo "rc=$r0"
if ! (cd "$D/repo" && patch -p1 -s < "$SD/patch.diff"); then echo "PATCH FAILED"; rm -rf "$D"; exit 3; fi
echo "## demo with patch"; (cd "$D/repo" && PYTHONPATH="$D/repo" timeout 300 /venv/bin/python "$SD/demo.py" >"$D/demo_mut.log" 2>&1); r1=$?; echo "rc=$r1"; tail -3 "$D/demo_mut.log" | cut -c1-300
if [ "${SKIP_TESTS:-0}" != "1" ]; then
  echo "## test suite with patch"; (cd "$D/repo" && PYTHONPATH="$D/repo" /venv/bin/python -m pytest -q -p no:cacheprovider --timeout=900 tests 2>&1 | grep -E "passed|failed|error" | tail -2)
fi
caught=""
for c in $CHECKS; do
  out=$(cd "$HERE" && VERIF_REPO="$D/repo" VERIF_OUT="$D/out" ./check "$c" "${TIER:-quick}" 2>&1); rc=$?
  if [ $rc -eq 1 ]; then caught="$caught $c"; echo "== $c FIRES"; echo "$out" | grep -E "key=" | head -3 | cut -c1-330; fi
  if [ $rc -eq 2 ]; then echo "== $c INCONCLUSIVE"; echo "$out" | grep INCONCLUSIVE | head -2 | cut -c1-300; fi
done
echo "SUMMARY demo_orig_rc=$r0 demo_patched_rc=$r1 caught_by:${caught:- NONE}"
rm -rf "$D"
