#!/bin/bash
# Run the repository's pinned test suite (guard off) and print the summary line.
REPO="${1:-/repo}"
cd "$REPO" && env -u SPP_VERIF /venv/bin/python -m pytest -ra -q -p no:cacheprovider --timeout=900 --continue-on-collection-errors 2>&1 | grep -E "^(FAILED|ERROR)|passed|failed" | tail -15
