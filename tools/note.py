#!/usr/bin/env python3
"""tools/note.py <seed id> <check> <text>: record in a kept seed's meta.json that it was missed at first and what was strengthened."""
import json, os, sys
HERE = os.path.dirname(os.path.dirname(os.path.abspath(__file__)))
sid, check, text = sys.argv[1:4]
p = os.path.join(HERE, "seeded", sid, "meta.json")
m = json.load(open(p))
v = m.setdefault("verified", {})
v["missed_at_first"] = True
v["strengthening"] = text
v["caught_by_quick_after_strengthening"] = [check]
json.dump(m, open(p, "w"), indent=1)
