#!/bin/bash
# tools/recheck_seeds.sh [seed ids...]: for every kept seeded change: patch applies to a scratch copy of the current /repo,
# demo fails with it, and the home property's quick check (plus any extra checks listed in meta.verified.caught_by_quick) fires.
HERE="$(cd "$(dirname "${BASH_SOURCE[0]}")/.." && pwd)"
cd "$HERE"
ids="$*"; [ -z "$ids" ] && ids=$(ls seeded)
bad=0
for id in $ids; do
  home=${id%%-*}
  D=$(mktemp -d /tmp/reseed-XXXXXX); mkdir -p "$D/repo" "$D/out"
  rsync -a --exclude .git --exclude docs --exclude examples /repo/ "$D/repo/"
  if ! (cd "$D/repo" && patch -p1 -s < "$HERE/seeded/$id/patch.diff" >/dev/null 2>&1); then echo "$id PATCH-FAILED"; bad=1; rm -rf "$D"; continue; fi
  (cd "$D/repo" && PYTHONPATH="$D/repo" timeout 300 /venv/bin/python "$HERE/seeded/$id/demo.py" >/dev/null 2>&1); drc=$?
  out=$(VERIF_REPO="$D/repo" VERIF_OUT="$D/out" ./check "$home" quick 2>&1); rc=$?
  key=$(echo "$out" | grep -m1 "key=" | cut -c1-150)
  if [ $rc -eq 1 ] && [ $drc -ne 0 ]; then echo "$id OK demo_rc=$drc $home fires: $key"; else echo "$id PROBLEM demo_rc=$drc check_rc=$rc"; bad=1; fi
  rm -rf "$D"
done
exit $bad
