#!/bin/bash
# tools/recheck_refactors.sh [ids...]: every kept BEHAVIOUR-PRESERVING change under /verif/refactors must leave all 20 quick
# checks at exit 0 (false-alarm regression test of the machinery). Patches that no longer apply to the current tree are reported.
HERE="$(cd "$(dirname "${BASH_SOURCE[0]}")/.." && pwd)"
ids="$*"; [ -z "$ids" ] && ids=$(ls "$HERE/refactors")
bad=0
for id in $ids; do
  out=$("$HERE/tools/refactor_verify.sh" "$HERE/refactors/$id" 2>&1 | tail -1)
  echo "$id: $out"
  echo "$out" | grep -q "alarms: NONE" || bad=1
done
exit $bad
