#!/usr/bin/env python3
"""tools/keep_seed.py <src dir> <seed id> <checks...>: verify a seeded change with tools/seed_verify.sh (scratch copy of /repo)
and, if it is valid (demo passes on the original, fails with the patch, test suite passes with the patch), keep it as
/verif/seeded/<seed id>/ with the verification record added to meta.json."""
import json, os, re, shutil, subprocess, sys
src, sid, checks = sys.argv[1], sys.argv[2], sys.argv[3:]
out = subprocess.run(["/verif/tools/seed_verify.sh", src] + checks, capture_output=True, text=True).stdout
print(out[-2500:])
m = re.search(r"SUMMARY demo_orig_rc=(\d+) demo_patched_rc=(\d+) caught_by:(.*)", out)
tests = re.search(r"(\d+) passed", out)
summary = next((ln for ln in out.splitlines() if re.search(r"\d+ passed", ln)), "")
failed = re.search(r"(\d+) failed", summary)      # pytest's own summary line only (a demo may print the word too)
ok = bool(m) and m.group(1) == "0" and m.group(2) != "0" and tests and not failed
if not ok:
    print("NOT KEPT: invalid seed", m.groups() if m else None, tests.group(0) if tests else None, failed.group(0) if failed else None)
    sys.exit(1)
dst = os.path.join("/verif/seeded", sid)
os.makedirs(dst, exist_ok=True)
for f in ("patch.diff", "demo.py"):
    if os.path.realpath(os.path.join(src, f)) != os.path.realpath(os.path.join(dst, f)):
        shutil.copy(os.path.join(src, f), os.path.join(dst, f))
meta = json.load(open(os.path.join(src, "meta.json")))
meta["verified"] = {"ran": "tools/seed_verify.sh (scratch copy of /repo at the current HEAD): demo on original rc=0, demo with patch rc=%s, "
                            "baseline pytest with patch: %s passed / 0 failed; quick checks run: %s" % (m.group(2), tests.group(1), " ".join(checks) or "all"),
                    "caught_by_quick": m.group(3).split()}
fires = re.findall(r"== (C\d\d) FIRES\n((?:  key=.*\n)+)", out)
meta["verified"]["first_keys"] = {c: k.strip().split("\n")[0][:200] for c, k in fires}
json.dump(meta, open(os.path.join(dst, "meta.json"), "w"), indent=1)
print("KEPT", dst, "caught by:", m.group(3))
