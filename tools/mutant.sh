#!/bin/bash
# tools/mutant.sh <patch.diff> <check-id>... : apply a patch to a scratch copy of /repo (never to /repo itself),
# run the given quick checks against it (VERIF_REPO), print verdict lines, delete the copy.
# TIER=thorough to use the thorough tier.
HERE="$(cd "$(dirname "${BASH_SOURCE[0]}")/.." && pwd)"
set -u
PATCH="$(readlink -f "$1")"; shift
D=$(mktemp -d /tmp/mut-XXXXXX)
mkdir -p "$D/repo" "$D/out"
rsync -a --exclude .git --exclude docs --exclude examples /repo/ "$D/repo/"
if ! (cd "$D/repo" && patch -p1 -s < "$PATCH"); then echo "PATCH FAILED"; rm -rf "$D"; exit 3; fi
caught=0
for c in "$@"; do
  out=$(cd "$HERE" && VERIF_REPO="$D/repo" VERIF_OUT="$D/out" ./check "$c" "${TIER:-quick}" 2>&1)
  rc=$?
  echo "== $c rc=$rc"; echo "$out" | grep -E "VIOLATION|INCONCLUSIVE|key=" | head -6
  [ $rc -eq 1 ] && caught=1
done
rm -rf "$D"
[ $caught -eq 1 ] && echo "CAUGHT" || echo "MISSED"
